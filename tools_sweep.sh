#!/bin/sh
# tools_sweep.sh <tier> <seed> [props...] : run checks without touching evidence, print one line each
tier=$1; seed=$2; shift 2
props="$@"; [ -z "$props" ] && props="C01 C02 C03 C04 C05 C06 C07 C08 C09 C10 C11 C12 C13 C14 C15 C16 C17 C18 C19 C20"
for p in $props; do
  out=$(VERIF_SEED=$seed ./check $p --tier $tier --no-evidence 2>&1)
  rc=$?
  echo "== $p tier=$tier seed=$seed rc=$rc $(echo "$out" | grep -E 'wall=' | sed 's/.*evaluations/evaluations/')"
  [ $rc -ne 0 ] && echo "$out" | grep -E "violated|VIOLATION|INCONCLUSIVE|Traceback|Error" | cut -c1-700 | head -12
done
