#!/usr/bin/env python3
"""Ingest and evaluate a seeded breaking change produced in a scratch worktree.

  tools_seed.py ingest <Cxx> <worktree> [--name NAME]   copy patch.diff / demo / SEED.md to seeded/<name>/, confirm
                                                        (tests pass with patch, demo fails with / passes without)
  tools_seed.py eval <name> [--tier quick] [--props C01,C02|all]   run checks against a scratch copy with the patch
  tools_seed.py evalall [--tier quick]                  owning property's check for every seeded change

Scratch copies live under /tmp and are removed afterwards; /repo is never modified.
"""
import argparse, glob, json, os, shutil, subprocess, sys, tempfile

VERIF = os.path.dirname(os.path.abspath(__file__))
SEEDED = os.path.join(VERIF, "seeded")
PY = "/venv/bin/python"


def sh(cmd, cwd=None, env=None, timeout=3600):
    p = subprocess.run(cmd, cwd=cwd, env=env, shell=isinstance(cmd, str), capture_output=True, text=True, timeout=timeout)
    return p.returncode, p.stdout + p.stderr


def scratch(patch=None):
    d = tempfile.mkdtemp(prefix="slmon-seed-")
    for sub in ("src", "tests", "pyproject.toml"):
        s = os.path.join("/repo", sub)
        (shutil.copytree if os.path.isdir(s) else shutil.copy)(s, os.path.join(d, sub))
    if patch:
        rc, out = sh(["git", "apply", "--whitespace=nowarn", "-p1", patch], cwd=d)
        if rc != 0:
            rc, out = sh("patch -p1 --binary < %s" % patch, cwd=d)
        if rc != 0:
            shutil.rmtree(d)
            raise SystemExit("patch does not apply: " + out)
    return d


def run_tests(d):
    rc, out = sh([PY, "-m", "pytest", "-q", "-p", "no:cacheprovider", "--timeout=900", "--benchmark-disable"], cwd=d,
                 env=dict(os.environ, PYTHONPATH=os.path.join(d, "src")))
    tail = [l for l in out.strip().splitlines() if " passed" in l or " failed" in l or "error" in l.lower()][-1:]
    return rc == 0, (tail[0] if tail else out[-200:])


def run_demo(d, demo):
    rc, out = sh([PY, demo], cwd=d, env=dict(os.environ, PYTHONPATH=os.path.join(d, "src"), MPLBACKEND="Agg"), timeout=900)
    return rc, out[-600:]


def ingest(prop, wt, name):
    name = name or prop
    dst = os.path.join(SEEDED, name)
    os.makedirs(dst, exist_ok=True)
    patch = os.path.join(dst, "patch.diff")
    with open(patch, "wb") as f:  # bytes: the sources use CRLF line endings
        subprocess.run(["git", "-C", wt, "diff", "--", "src"], stdout=f, check=True)
    if os.path.getsize(patch) == 0:
        raise SystemExit("worktree has no source change")
    demos = glob.glob(os.path.join(wt, "demo_*.py"))
    if not demos:
        raise SystemExit("no demo_*.py in worktree")
    demo = os.path.join(dst, "demo.py")
    shutil.copy(demos[0], demo)
    # the demo may hard-code the worktree path: make it location independent
    txt = open(demo).read().replace(wt + "/src", os.environ.get("SEED_SRC_PLACEHOLDER", wt + "/src"))
    open(demo, "w").write(txt)
    if os.path.exists(os.path.join(wt, "SEED.md")):
        shutil.copy(os.path.join(wt, "SEED.md"), os.path.join(dst, "SEED.md"))
    d1, d0 = scratch(patch), scratch(None)
    try:
        for dd in (d1, d0):
            t = open(demo).read().replace(wt + "/src", dd + "/src").replace(wt, dd)
            open(os.path.join(dd, "demo.py"), "w").write(t)
        ok_tests, tail = run_tests(d1)
        rc1, out1 = run_demo(d1, os.path.join(d1, "demo.py"))
        rc0, out0 = run_demo(d0, os.path.join(d0, "demo.py"))
    finally:
        shutil.rmtree(d1, ignore_errors=True)
        shutil.rmtree(d0, ignore_errors=True)
    meta = {
        "id": name, "property": prop, "patch": "patch.diff", "demo": "demo.py",
        "confirmed": {"existing_tests_pass_with_patch": ok_tests, "tests_tail": tail, "demo_exit_with_patch": rc1,
                      "demo_exit_without_patch": rc0, "demo_tail_with_patch": out1[-300:]},
        "needs_to_manifest": first_lines(os.path.join(dst, "SEED.md")),
        "ran": ["pytest (91 tests) on a scratch copy with the patch", "demo.py with and without the patch",
                "./check <owning property> against the scratch copy (see 'detected_by')"],
        "kept": bool(ok_tests and rc1 != 0 and rc0 == 0),
        "detected_by": {},
    }
    json.dump(meta, open(os.path.join(dst, "meta.json"), "w"), indent=1)
    print(json.dumps(meta["confirmed"], indent=1))
    print("KEPT" if meta["kept"] else "REJECTED (does not meet the criteria)")
    return meta


def first_lines(p, n=12):
    if not os.path.exists(p):
        return ""
    return "\n".join(open(p).read().strip().splitlines()[:n])


def evaluate(name, tier, props):
    dst = os.path.join(SEEDED, name)
    meta = json.load(open(os.path.join(dst, "meta.json")))
    if props == ["own"]:
        props = [meta["property"]]
    elif props == ["all"]:
        props = ["C%02d" % i for i in range(1, 21)]
    d = scratch(os.path.join(dst, "patch.diff"))
    res = {}
    try:
        for p in props:
            rc, out = sh([os.path.join(VERIF, "check"), p, "--tier", tier, "--no-evidence"], cwd=VERIF,
                         env=dict(os.environ, VERIF_REPO=d), timeout=7200)
            cl = sorted(set(l.strip().split()[1].replace("clause=", "") for l in out.splitlines() if l.strip().startswith("violated clause=")))
            res[p] = {"rc": rc, "caught": rc == 1 and "VIOLATION property=%s" % p in out, "clauses": cl[:8]}
            print("%-8s %-4s tier=%-8s rc=%d %s %s" % (name, p, tier, rc, "CAUGHT" if res[p]["caught"] else "missed", ",".join(cl[:5])))
            if rc == 2:
                print(out[-1200:])
    finally:
        shutil.rmtree(d, ignore_errors=True)
    meta.setdefault("detected_by", {})
    for p, r in res.items():
        meta["detected_by"]["%s/%s" % (p, tier)] = {"caught": r["caught"], "clauses": r["clauses"]}
    json.dump(meta, open(os.path.join(dst, "meta.json"), "w"), indent=1)
    return res


def main():
    ap = argparse.ArgumentParser()
    ap.add_argument("cmd")
    ap.add_argument("a", nargs="?")
    ap.add_argument("b", nargs="?")
    ap.add_argument("--name")
    ap.add_argument("--tier", default="quick")
    ap.add_argument("--props", default="own")
    a = ap.parse_args()
    if a.cmd == "ingest":
        ingest(a.a, a.b, a.name)
    elif a.cmd == "eval":
        evaluate(a.a, a.tier, a.props.split(","))
    elif a.cmd == "evalmatrix":
        # every kept seed against every check (quick tier), in parallel; writes seeded/MATRIX.md
        from concurrent.futures import ThreadPoolExecutor

        names = [os.path.basename(os.path.dirname(m)) for m in sorted(glob.glob(os.path.join(SEEDED, "*", "meta.json")))
                 if json.load(open(m)).get("kept")]
        allp = ["C%02d" % i for i in range(1, 21)]
        with ThreadPoolExecutor(int(a.b or 6)) as ex:
            res = list(ex.map(lambda n: (n, evaluate(n, a.tier, allp)), names))
        lines = ["# Which quick check reports a VIOLATION for which seeded change", "",
                 "Rows: kept seeded changes; columns: checks; X = exit 1 + VIOLATION, . = held, ? = inconclusive.", "",
                 "| seed | " + " | ".join(p[1:] for p in allp) + " |", "|---|" + "---|" * len(allp)]
        for n, r in res:
            lines.append("| %s | " % n + " | ".join("X" if r[p]["caught"] else ("?" if r[p]["rc"] == 2 else ".") for p in allp) + " |")
        open(os.path.join(SEEDED, "MATRIX.md"), "w").write("\n".join(lines) + "\n")
    elif a.cmd == "evalall":
        for m in sorted(glob.glob(os.path.join(SEEDED, "*", "meta.json"))):
            name = os.path.basename(os.path.dirname(m))
            if json.load(open(m)).get("kept"):
                evaluate(name, a.tier, a.props.split(","))


if __name__ == "__main__":
    main()
