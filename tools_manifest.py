#!/usr/bin/env python3
"""Regenerate MANIFEST.json from the table below (kept in one place so it stays valid)."""
import json, os, sys

HERE = os.path.dirname(os.path.abspath(__file__))
BASE = "cd /repo && /venv/bin/python -m pytest -ra -q -p no:cacheprovider --timeout=900 --continue-on-collection-errors"

# id -> (level category, technique, level text, level note, design ref)
CHECKS = {
 "C01": ("exploration", "reference-model row monitor over solve() tables (documented laws, tolerance algebra from the solver's stopping rule) + polarity-mirror differential twin",
         "Every component row of every table returned for randomized well-formed trees (all 11 kinds, tables, both polarities, multi-source, PMux, phases) is judged against an independent implementation of the documented laws with structure taken from the spec; a mirrored-supply twin is solved through the real code and compared. Held on the executions observed.",
         "Trusted: the reference laws in slmon/model.py (written from docstrings/property text); numpy allclose atol=1e-8 as the residual bound; general 2-D tables checked by corner-range interval.", "4/C01"),
 "C02": ("exploration", "runtime conservation monitor (row energy identity, loss/efficiency ranges, thermal identities, per-phase system balance) on solve() tables",
         "Arithmetic identities of the property are evaluated on every row and every phase of every returned table over randomized systems, ambients and thermal resistances; tolerances derived from the solver's stopping rule.",
         "Trusted: tolerance algebra of DESIGN.md section 2; load temperature rise interpreted as rt*consumption (pinned by the repository's tests).", "4/C02"),
 "C03": ("exploration", "solver probe (wrapped System._solve/_fwd_prop: captured iterate, sweep counter) + re-sweep convergence oracle + physicality monitor + reference steady-state solver for the progress clause",
         "After each solve() the captured iterate is pushed through one more sweep of the code's own propagation and must satisfy the same allclose predicate; returned tables must be finite, physical and within the requested tolerance of the laws; exception types and sweep counts are asserted; benign systems (reference steady state with every node >= 80 % of its regulated origin) must be solved by default settings. Overload family enumerated over 7 series forms x 2 load kinds x 10 overload factors.",
         "Trusted: reference steady-state solver (damped Gauss-Seidel on documented laws); sweep bound taken as the code's literal maxiter+1; progress asserted only inside the conservative benign region.", "4/C03"),
 "C04": ("exploration", "dead-closure monitor: set of components that must be quiescent derived from the spec, compared with exact zeros / exact sleep current in the table",
         "Dead elements are planted at random depths (0 V source, phase-inactive source/converter/regulator/switch/mux, LinReg below drop-out, mux without live input); the transitive closure below them is derived from the spec and every row in it must be exactly zero in every phase; sleeping elements must draw exactly iis.",
         "Trusted: phase-behaviour model in slmon/model.py; exact comparison with 0.0.", "4/C04"),
 "C06": ("exploration", "phase-aware reference-law monitor + differential twins through the real code (phase slice vs solve(phase=p); substitution twin without phases; unconfigured vs phase-less)",
         "Per phase the rows are judged by the phase-aware reference laws; solve(phase=p) is compared cell by cell with the slice of solve(); a phase-free twin system with substituted load values / dead sources / sleep-current loads is solved at 1e-10 and compared; unknown phases must raise ValueError.",
         "Trusted: substitution twin construction; twin comparison tolerance derived from numpy's fixed atol=1e-8 (TwinTol).", "4/C06"),
 "C20": ("exploration", "runtime post-condition wrapper (exact rational closed form) + metamorphic re-invocation monitor",
         "Every call of trace_res/plane_res made by a randomized workload (12 decades of geometry) is checked by a wrapper against the closed form in Fraction arithmetic and against proportionality/affinity/symmetry relations; held on the executions observed, not a proof.",
         "Trusted: CPython float/Fraction arithmetic; tolerance 1e-12 of the un-cancelled magnitude.", "4/C20"),
}
PENDING_REASON = "check not built yet in this round (planned, see DESIGN.md section 4)"

def main():
    props = [json.loads(l)["id"] for l in open(os.path.join(HERE, "properties.jsonl"))]
    checks, na = [], []
    for p in props:
        if p in CHECKS:
            cat, tech, text, note, ref = CHECKS[p]
            checks.append({
                "property_id": p,
                "quick_cmd": "./check %s --tier quick" % p,
                "thorough_cmd": "./check %s --tier thorough" % p,
                "evidence_file": "evidence/%s.json" % p,
                "replay_cmd_template": "./check %s --replay {path}" % p,
                "engine": "slmon",
                "level_claimed": {"category": cat, "text": text, "design_ref": "DESIGN.md section " + ref},
                "level_note": note,
                "technique": tech,
            })
        else:
            na.append({"property_id": p, "reason": PENDING_REASON})
    m = {
        "version": 1,
        "setup_cmd": "./check --selfcheck",
        "hooks": {
            "guard": "SYSLOSS_VERIF",
            "enable": "No source hooks: monitors are attached by the harness (slmon/loader.py and per-check setup()) by wrapping Python attributes of the package imported from /repo/src; SYSLOSS_VERIF=1 is exported by ./check and read only by the harness.",
            "baseline_off_cmd": BASE,
            "source_commits": [],
            "add_only": True,
        },
        "engines": [{"name": "slmon", "path": "slmon/", "serves_properties": sorted(CHECKS),
                     "kind_free_text": "runtime monitors: API-boundary wrappers, reference-model oracles, differential twins, invariant walks, fault injection; pure Python run under /venv/bin/python against /repo/src"}],
        "checks": checks,
        "not_applicable": na,
        "notes": "See DESIGN.md. Exit codes: 0 held, 1 VIOLATION, 2 INCONCLUSIVE (never folded into the others).",
    }
    with open(os.path.join(HERE, "MANIFEST.json"), "w") as f:
        json.dump(m, f, indent=1)
    try:
        import jsonschema
        jsonschema.validate(m, json.load(open("/root/.vp/MANIFEST.schema.json")))
        print("MANIFEST valid:", len(checks), "checks,", len(na), "not applicable")
    except ImportError:
        print("written (jsonschema unavailable)")

if __name__ == "__main__":
    main()
