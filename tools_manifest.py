#!/usr/bin/env python3
"""Regenerate MANIFEST.json from the table below (kept in one place so it stays valid)."""
import json, os, sys

HERE = os.path.dirname(os.path.abspath(__file__))
BASE = "cd /repo && /venv/bin/python -m pytest -ra -q -p no:cacheprovider --timeout=900 --continue-on-collection-errors"

# id -> (level category, technique, level text, level note, design ref)
CHECKS = {
 "C20": ("exploration", "runtime post-condition wrapper (exact rational closed form) + metamorphic re-invocation monitor",
         "Every call of trace_res/plane_res made by a randomized workload (12 decades of geometry) is checked by a wrapper against the closed form in Fraction arithmetic and against proportionality/affinity/symmetry relations; held on the executions observed, not a proof.",
         "Trusted: CPython float/Fraction arithmetic; tolerance 1e-12 of the un-cancelled magnitude.", "4/C20"),
}
PENDING_REASON = "check not built yet in this round (planned, see DESIGN.md section 4)"

def main():
    props = [json.loads(l)["id"] for l in open(os.path.join(HERE, "properties.jsonl"))]
    checks, na = [], []
    for p in props:
        if p in CHECKS:
            cat, tech, text, note, ref = CHECKS[p]
            checks.append({
                "property_id": p,
                "quick_cmd": "./check %s --tier quick" % p,
                "thorough_cmd": "./check %s --tier thorough" % p,
                "evidence_file": "evidence/%s.json" % p,
                "replay_cmd_template": "./check %s --replay {path}" % p,
                "engine": "slmon",
                "level_claimed": {"category": cat, "text": text, "design_ref": "DESIGN.md section " + ref},
                "level_note": note,
                "technique": tech,
            })
        else:
            na.append({"property_id": p, "reason": PENDING_REASON})
    m = {
        "version": 1,
        "setup_cmd": "./check --selfcheck",
        "hooks": {
            "guard": "SYSLOSS_VERIF",
            "enable": "No source hooks: monitors are attached by the harness (slmon/loader.py and per-check setup()) by wrapping Python attributes of the package imported from /repo/src; SYSLOSS_VERIF=1 is exported by ./check and read only by the harness.",
            "baseline_off_cmd": BASE,
            "source_commits": [],
            "add_only": True,
        },
        "engines": [{"name": "slmon", "path": "slmon/", "serves_properties": sorted(CHECKS),
                     "kind_free_text": "runtime monitors: API-boundary wrappers, reference-model oracles, differential twins, invariant walks, fault injection; pure Python run under /venv/bin/python against /repo/src"}],
        "checks": checks,
        "not_applicable": na,
        "notes": "See DESIGN.md. Exit codes: 0 held, 1 VIOLATION, 2 INCONCLUSIVE (never folded into the others).",
    }
    with open(os.path.join(HERE, "MANIFEST.json"), "w") as f:
        json.dump(m, f, indent=1)
    try:
        import jsonschema
        jsonschema.validate(m, json.load(open("/root/.vp/MANIFEST.schema.json")))
        print("MANIFEST valid:", len(checks), "checks,", len(na), "not applicable")
    except ImportError:
        print("written (jsonschema unavailable)")

if __name__ == "__main__":
    main()
