#!/usr/bin/env python3
"""Regenerate MANIFEST.json from the table below (kept in one place so it stays valid)."""
import json, os, sys

HERE = os.path.dirname(os.path.abspath(__file__))
BASE = "cd /repo && /venv/bin/python -m pytest -ra -q -p no:cacheprovider --timeout=900 --continue-on-collection-errors"

# id -> (level category, technique, level text, level note, design ref)
CHECKS = {
 "C01": ("exploration", "reference-model row monitor over solve() tables (documented laws, tolerance algebra from the solver's stopping rule) + polarity-mirror differential twin",
         "Every component row of every table returned for randomized well-formed trees (all 11 kinds, tables, both polarities, multi-source, PMux, phases) is judged against an independent implementation of the documented laws with structure taken from the spec; a mirrored-supply twin is solved through the real code and compared; the repository's own 91 tests are additionally run under the same row monitor (pytest plugin, structure from the live graph). Held on the executions observed.",
         "Trusted: the reference laws in slmon/model.py (written from docstrings/property text); numpy allclose atol=1e-8 as the residual bound; general 2-D tables checked by corner-range interval.", "4/C01"),
 "C02": ("exploration", "runtime conservation monitor (row energy identity, loss/efficiency ranges, thermal identities, per-phase system balance) on solve() tables",
         "Arithmetic identities of the property are evaluated on every row and every phase of every returned table over randomized systems, ambients and thermal resistances; tolerances derived from the solver's stopping rule.",
         "Trusted: tolerance algebra of DESIGN.md section 2; load temperature rise interpreted as rt*consumption (pinned by the repository's tests).", "4/C02"),
 "C03": ("exploration", "solver probe (wrapped System._solve/_fwd_prop: captured iterate, sweep counter) + re-sweep convergence oracle + physicality monitor + reference steady-state solver for the progress clause",
         "After each solve() the captured iterate is pushed through one more sweep of the code's own propagation and must satisfy the same allclose predicate; returned tables must be finite, physical and within the requested tolerance of the laws; exception types and sweep counts are asserted; benign systems (reference steady state with every node >= 80 % of its regulated origin) must be solved by default settings. Overload family enumerated over 7 series forms x 2 load kinds x 10 overload factors.",
         "Trusted: reference steady-state solver (damped Gauss-Seidel on documented laws); sweep bound taken as the code's literal maxiter+1; progress asserted only inside the conservative benign region.", "4/C03"),
 "C04": ("exploration", "dead-closure monitor: set of components that must be quiescent derived from the spec, compared with exact zeros / exact sleep current in the table",
         "Dead elements are planted at random depths (0 V source, phase-inactive source/converter/regulator/switch/mux, LinReg below drop-out, mux without live input); the transitive closure below them is derived from the spec and every row in it must be exactly zero in every phase; sleeping elements must draw exactly iis.",
         "Trusted: phase-behaviour model in slmon/model.py; exact comparison with 0.0.", "4/C04"),
 "C05": ("exploration", "enumerated live/dead input patterns (2^k per layout) + row monitor: first-live-input oracle from the input rows, per-input rs law, current attribution, parent/rail-in/domain labels",
         "For every generated mux layout all 2^k live/dead patterns are realised (0 V source, phase-inactive source, phase-inactive regulator/switch upstream) and the mux row, its input rows and its subtree are judged in every phase.",
         "Trusted: an input is live iff its reported Vout is non-zero; reference laws of slmon/model.py.", "4/C05"),
 "C06": ("exploration", "phase-aware reference-law monitor + differential twins through the real code (phase slice vs solve(phase=p); substitution twin without phases; unconfigured vs phase-less)",
         "Per phase the rows are judged by the phase-aware reference laws; solve(phase=p) is compared cell by cell with the slice of solve(); a phase-free twin system with substituted load values / dead sources / sleep-current loads is solved at 1e-10 and compared; unknown phases must raise ValueError.",
         "Trusted: substitution twin construction; twin comparison tolerance derived from numpy's fixed atol=1e-8 (TwinTol).", "4/C06"),
 "C07": ("exploration", "aggregate recomputation monitor over solve(energy=True) tables built in several construction orders (true-domain attribution from the spec, subsystem/total/average/energy re-addition)",
         "Subsystem, total, average and energy rows are recomputed from the component rows and the spec (domain = source that actually powers the row, mux via its selected input) for the same structure built in up to 4 construction orders; exact re-addition tolerance 1e-12.",
         "Trusted: mux selection derived from input rows; durations taken from the spec.", "4/C07"),
 "C08": ("exploration", "differential monitor rail_rep() vs recomputation from solve() with identical arguments (membership by true supplier from the spec; warning tokens as sets)",
         "rail_rep() of randomized railed systems (multi-source, mux between rails, phases, limits producing 0/1/several warnings per rail) is compared per phase and rail with sums recomputed from solve(); with no rails rail_rep()==solve().",
         "Trusted: solve() table itself (judged by C01/C02/C05); a dead mux is booked under its first declared input as in solve().", "4/C08"),
 "C09": ("exploration", "two-pass boundary workload (limits chosen at, one ulp around and far from the reported value) + warning oracle recomputed from the reported row; roll-up recomputation; limits() report",
         "Each Warnings cell is recomputed from the reported quantities of its own row with the documented applicability table and defaults, including exact-boundary and one-ulp cases on both polarities and all phases; Subsystem/System total roll-up recomputed from true domains.",
         "Trusted: applicability table and defaults transcribed from the docstrings; quantities are the reported cells.", "4/C09"),
 "C10": ("exploration", "wrapped _Interp1d/_Interp2d._interp call log + probe-system recovery, judged by an independent grid oracle (node / grid line / cell corner range / nearest-edge projection)",
         "Tables of all seven (kind, parameter) pairs are queried at ~40 points each (nodes, grid lines, cells, outside in 8 directions, both polarities) through Source-X-ILoad probe systems; both the value returned by the interpolator and the parameter recovered from the solved table are compared with the oracle; constant tables vs constants.",
         "Trusted: own piecewise-linear oracle; 2-D single-column tables excluded (Qhull).", "4/C10"),
 "C11": ("exploration", "round-robin catalogue of unphysical constructor arguments (must raise ValueError) + sign-twin differential through probe systems + physicality monitor on accepted components",
         "Every catalogue entry (efficiency range, dropout, zero resistance, malformed/mismatched/non-monotonic tables, negative tabulated ig, malformed limits, non-numeric rs lists) is exercised per kind; negative-signed magnitudes must solve identically to positive ones; accepted components must show Loss>=0, eff<=100 %, no passive gain.",
         "Trusted: catalogue derived from docstrings and the property text; params() display of raw negative constants is a diagnostic only.", "4/C11"),
 "C12": ("exploration", "round-trip differential: S vs System.from_file(S.save()) compared on solve/rail_rep/params/phases per key, JSON idempotence, live-graph structure diff, version-gate fault cases",
         "Full-feature random systems are saved, reloaded and compared report by report (1e-9 relative, keyed by component/phase), the second save must equal the first, and files stamped with newer/older versions must be refused/accepted.",
         "Trusted: comparison keyed by names (row order may differ); limits not applicable to a kind are not persisted by design.", "4/C12"),
 "C13": ("exploration", "differential TOML loader vs constructor (params/limits/solve of a probe system) + enumerated fault cases (missing mandatory key -> KeyError, wrong type -> ValueError)",
         "For all 11 kinds random parameter subsets/forms are written to TOML and Kind.from_file is compared with the constructor call; every mandatory key is removed in turn and every key is given each wrong type in turn (round-robin, generic loader).",
         "Trusted: toml 0.10.2 as the environment's parser; Rectifier.vdrop treated as always written.", "4/C13"),
 "C14": ("exploration", "invariant walk over the live graph after every call of random colliding edit histories (names/rails from one pool of 10)",
         "After every add_source/add_comp/change_comp/del_comp call, accepted or rejected, the rustworkx graph and registries are walked and the seven well-formedness invariants asserted; a history stops at the first violation so the introducing call is unambiguous.",
         "Trusted: the invariant reads internal state directly (graph, name/rail registries); params() cross-check.", "4/C14"),
 "C15": ("fault_enumeration", "twin-run oracle: two real Systems driven by the same history, the twin skipping exactly the rejected calls; all five observables compared after every step; enumerated rejection classes fired at every state",
         "33 rejection classes of the property are fired repeatedly on evolving systems (warm-up prefix guarantees loads, rails, a second source and usually a mux); after every step tree/params/phases/save/solve of subject and twin must be identical and calls accepted by the subject must be accepted by the twin.",
         "Trusted: observables serialised exactly; internal-only differences are diagnostics.", "4/C15"),
 "C16": ("exploration", "detour histories ending at a target spec (extra add/delete, replace kind and back, late rename incl. mux inputs, subtree via intermediate element deleted with del_childs=False, lost-and-reapplied phase configs) vs freshly built system; configured-values oracle for params/limits/phases",
         "The edited system and a system freshly built from the target spec are compared on every report per (component, phase) key, on the save() document up to sibling order and on live-graph structure; params()/limits()/phases() must show the configured values.",
         "Trusted: documented semantics of each edit call guarantee the detour history ends at the target; 1e-9 relative for numeric cells.", "4/C16"),
 "C17": ("fault_enumeration", "snapshot-before / compare-after monitor at the API boundary over interleaved analysis calls (observables, argument objects, module-level mutable defaults) + batt_life fault enumeration (callback / solver failpoint raising at every k-th call)",
         "After every analysis call of random interleavings on one or two systems all observables, the passed-in argument objects and a fingerprint of every module-level mutable default must be unchanged; for batt_life the probe raises, the deplete callback raises at its k-th call for every k, and a failpoint around System._solve raises at the k-th solver call for every k (Exception and BaseException subclasses), after which params() and save() must show the configured battery.",
         "Trusted: failpoint wrapper around System._solve installed by the harness; observables serialised exactly.", "4/C17"),
 "C18": ("exploration", "callback argument-stream monitor (the user's pfunc/dfunc record every call) + independent twin System solved through the public API for the expected current + log reconstruction oracle",
         "The recorded argument stream of the callbacks is checked call by call (probe first and once, phase durations cycling in declared order or 3.6*cap0/I, current equal to the twin system's battery output current for the previous battery state) and the returned log is reconstructed from the states the model returned.",
         "Trusted: twin System through solve(phase=..., vtol=1e-5, itol=1e-6); idle batteries without phases are outside the quantifier.", "4/C18"),
 "C19": ("exploration", "captured pydot.Dot object (hook on pydot.Dot.write) read structurally + re-parse of the written DOT text + sample rendered by the real dot binary to JSON; heat oracle from a separate solve()",
         "Node set, edge set, clusters, attribute precedence and config immutability are read from the captured graph object for random systems, configs and realistic names (hostile names in the thorough tier, classified as finding F13); heat labels, colour order, extremes and legend are recomputed from a separate solve().",
         "Trusted: pydot object model and parser, Graphviz dot for the rendered sample; 3 significant digits = 5e-3 relative.", "4/C19"),
 "C20": ("exploration", "runtime post-condition wrapper (exact rational closed form) + metamorphic re-invocation monitor",
         "Every call of trace_res/plane_res made by a randomized workload (12 decades of geometry) is checked by a wrapper against the closed form in Fraction arithmetic and against proportionality/affinity/symmetry relations; held on the executions observed, not a proof.",
         "Trusted: CPython float/Fraction arithmetic; tolerance 1e-12 of the un-cancelled magnitude.", "4/C20"),
}
PENDING_REASON = "check not built yet in this round (planned, see DESIGN.md section 4)"

def main():
    props = [json.loads(l)["id"] for l in open(os.path.join(HERE, "properties.jsonl"))]
    checks, na = [], []
    for p in props:
        if p in CHECKS:
            cat, tech, text, note, ref = CHECKS[p]
            checks.append({
                "property_id": p,
                "quick_cmd": "./check %s --tier quick" % p,
                "thorough_cmd": "./check %s --tier thorough" % p,
                "evidence_file": "evidence/%s.json" % p,
                "replay_cmd_template": "./check %s --replay {path}" % p,
                "engine": "slmon",
                "level_claimed": {"category": cat, "text": text, "design_ref": "DESIGN.md section " + ref},
                "level_note": note,
                "technique": tech,
            })
        else:
            na.append({"property_id": p, "reason": PENDING_REASON})
    m = {
        "version": 1,
        "setup_cmd": "./check --selfcheck",
        "hooks": {
            "guard": "SYSLOSS_VERIF",
            "enable": "No source hooks: monitors are attached by the harness (slmon/loader.py and per-check setup()) by wrapping Python attributes of the package imported from /repo/src; SYSLOSS_VERIF=1 is exported by ./check and read only by the harness.",
            "baseline_off_cmd": BASE,
            "source_commits": [],
            "add_only": True,
        },
        "engines": [{"name": "slmon", "path": "slmon/", "serves_properties": sorted(CHECKS),
                     "kind_free_text": "runtime monitors: API-boundary wrappers, reference-model oracles, differential twins, invariant walks, fault injection; pure Python run under /venv/bin/python against /repo/src"}],
        "checks": checks,
        "not_applicable": na,
        "notes": "See DESIGN.md. Exit codes: 0 held, 1 VIOLATION, 2 INCONCLUSIVE (never folded into the others).",
    }
    with open(os.path.join(HERE, "MANIFEST.json"), "w") as f:
        json.dump(m, f, indent=1)
    try:
        import jsonschema
        jsonschema.validate(m, json.load(open("/root/.vp/MANIFEST.schema.json")))
        print("MANIFEST valid:", len(checks), "checks,", len(na), "not applicable")
    except ImportError:
        print("written (jsonschema unavailable)")

if __name__ == "__main__":
    main()
