#!/bin/sh
# tools_final.sh : last thorough confirmations after the final widenings (no evidence written)
./tools_sweep.sh thorough 8 C16
./tools_sweep.sh thorough 7 C06
./tools_sweep.sh thorough 9 C16 C17 C20
