#!/usr/bin/env python3
"""Self-test: apply each mutant to a scratch copy of /repo (outside /repo and /verif), run the owning
check's quick tier against it (VERIF_REPO), expect exit 1 + a VIOLATION line, delete the copy.

usage: selftest/run.py [--only ID_SUBSTR] [--props C01,C02] [--jobs N] [--tier quick]
"""
import argparse, json, os, shutil, subprocess, sys, tempfile
from concurrent.futures import ThreadPoolExecutor

HERE = os.path.dirname(os.path.abspath(__file__))
VERIF = os.path.dirname(HERE)
sys.path.insert(0, HERE)
from mutants import MUTANTS  # noqa: E402


def apply(root, m):
    for f, old, new in m["edits"]:
        p = os.path.join(root, f)
        raw = open(p, newline="").read()
        crlf = "\r\n" in raw
        s = raw.replace("\r\n", "\n")
        if s.count(old) != 1:
            raise SystemExit("mutant %s: pattern occurs %d times in %s" % (m["id"], s.count(old), f))
        s = s.replace(old, new)
        if crlf:
            s = s.replace("\n", "\r\n")
        open(p, "w", newline="").write(s)


def one(m, tier, with_tests):
    d = tempfile.mkdtemp(prefix="slmon-mut-")
    try:
        shutil.copytree("/repo/src", os.path.join(d, "src"))
        apply(d, m)
        res = {}
        if with_tests:
            shutil.copytree("/repo/tests", os.path.join(d, "tests"))
            shutil.copy("/repo/pyproject.toml", d)
            p = subprocess.run(["/venv/bin/python", "-m", "pytest", "-q", "-x", "-p", "no:cacheprovider", "--timeout=900",
                                "--benchmark-disable"], cwd=d, capture_output=True, text=True,
                               env=dict(os.environ, PYTHONPATH=os.path.join(d, "src")))
            res["tests_pass"] = p.returncode == 0
            res["tests_tail"] = p.stdout.strip().splitlines()[-1:] if p.stdout else []
        for prop in m["props"]:
            env = dict(os.environ, VERIF_REPO=d)
            p = subprocess.run([os.path.join(VERIF, "check"), prop, "--tier", tier, "--no-evidence"], cwd=VERIF,
                               capture_output=True, text=True, env=env)
            viol = [l for l in p.stdout.splitlines() if l.startswith("VIOLATION property=%s" % prop)]
            cl = [l.strip() for l in p.stdout.splitlines() if l.strip().startswith("violated clause=")]
            res[prop] = {"rc": p.returncode, "caught": p.returncode == 1 and bool(viol),
                         "clauses": sorted(set(c.split()[1] for c in cl))[:6]}
            if p.returncode not in (0, 1):
                res[prop]["tail"] = p.stdout[-800:] + p.stderr[-800:]
        return m["id"], res
    finally:
        shutil.rmtree(d, ignore_errors=True)


def main():
    ap = argparse.ArgumentParser()
    ap.add_argument("--only")
    ap.add_argument("--props")
    ap.add_argument("--jobs", type=int, default=8)
    ap.add_argument("--tier", default="quick")
    ap.add_argument("--tests", action="store_true", help="also confirm the repository's own tests still pass")
    a = ap.parse_args()
    ms = MUTANTS
    if a.only:
        ms = [m for m in ms if a.only in m["id"]]
    if a.props:
        want = set(a.props.split(","))
        ms = [dict(m, props=[p for p in m["props"] if p in want]) for m in ms]
        ms = [m for m in ms if m["props"]]
    missed = 0
    with ThreadPoolExecutor(a.jobs) as ex:
        for mid, res in ex.map(lambda m: one(m, a.tier, a.tests), ms):
            for prop, r in res.items():
                if prop in ("tests_pass", "tests_tail"):
                    continue
                flag = "CAUGHT" if r["caught"] else "MISSED"
                if not r["caught"]:
                    missed += 1
                extra = "" if "tests_pass" not in res else (" tests=%s" % ("pass" if res["tests_pass"] else "FAIL %s" % res["tests_tail"]))
                print("%-7s %-40s %s rc=%s %s%s" % (flag, mid, prop, r["rc"], ",".join(r["clauses"]), extra))
                if "tail" in r:
                    print(r["tail"])
    print("mutants: %d, missed: %d" % (len(ms), missed))
    return 1 if missed else 0


if __name__ == "__main__":
    sys.exit(main())
