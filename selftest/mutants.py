"""Self-test mutants: realistic single-site changes to sysloss that keep the 91 existing tests green
(confirmed with selftest/run.py --tests) and break one of the 20 properties."""

C = "src/sysloss/components.py"
Y = "src/sysloss/system.py"
D = "src/sysloss/diagram.py"
U = "src/sysloss/utils.py"

MUTANTS = []


def m(id_, props, f, old, new):
    MUTANTS.append({"id": id_, "props": props, "edits": [(f, old, new)]})


# ---- C20 -------------------------------------------------------------------------------------
m("c20-trace-mm-factor", ["C20"], U, "a = 0.5 * (w1_mm + w2_mm) * t_mm / 1e3", "a = 0.5 * (w1_mm + w2_mm) * t_mm / 1e-3")
m("c20-trace-mean-width", ["C20"], U, "a = 0.5 * (w1_mm + w2_mm) * t_mm / 1e3", "a = 0.5 * (w1_mm + w1_mm) * t_mm / 1e3")
m("c20-plane-temp-ref", ["C20"], U, "return (rs * l / w) * (1 + tcr * (temp - 20.0))", "return (rs * l / w) * (1 + tcr * (temp - 25.0))")
m("c20-plane-lw-inverted", ["C20"], U, "return (rs * l / w) *", "return (rs * w / l) *")

# ---- C01 -------------------------------------------------------------------------------------
m("c01-parent-voltage-first-child", ["C01"], Y,
  "            if p != -1:  # not root\n                vi = [v[i] for i in p]\n                ii = i[n]",
  "            if p != -1:  # not root\n                vi = [v[i] * (1.0 if n == self._childs[p[0]][0] else 0.999) for i in p]\n                ii = i[n]")
m("c01-mux-current-to-all-parents", ["C01", "C05"], Y,
  "                if pp[pinp] == node:\n                    io += i[c]", "                io += i[c]")
m("c01-eff-args-swapped", ["C01", "C10"], C,
  "        ve = vi[0] * self._ipr._interp(abs(io), abs(vi[0]))", "        ve = vi[0] * self._ipr._interp(abs(vi[0]), abs(io))")
m("c01-linreg-ig-dropped", ["C01"], C,
  "        i = io + self._ipr._interp(abs(io), abs(vi[0]))\n        if phase_conf and phase not in phase_conf:\n            i = self._params[\"iis\"]\n        return i\n\n    def _solv_outp_volt(self, vi, ii, io, phase, phase_conf=[], pstate={}):\n        \"\"\"Calculate LinReg",
  "        i = io\n        if phase_conf and phase not in phase_conf:\n            i = self._params[\"iis\"]\n        return i\n\n    def _solv_outp_volt(self, vi, ii, io, phase, phase_conf=[], pstate={}):\n        \"\"\"Calculate LinReg")
m("c01-rectifier-single-drop", ["C01"], C,
  "            vo = vi[0] - 2 * self._ipr._interp(abs(io), abs(vi[0])) * np.sign(vi[0])\n            if np.sign(vo) == np.sign(vi[0]):\n                return abs(vo), STATE_DEFAULT",
  "            vo = vi[0] - self._ipr._interp(abs(io), abs(vi[0])) * np.sign(vi[0])\n            if np.sign(vo) == np.sign(vi[0]):\n                return abs(vo), STATE_DEFAULT")
m("c01-pswitch-negative-rail-sign", ["C01"], C,
  "        v = abs(vi[0]) - self._params[\"rs\"] * io\n        if phase_conf and phase not in phase_conf:\n            return 0.0, STATE_OFF\n        if vi[0] >= 0.0:\n            return v, STATE_DEFAULT\n        return -v, STATE_DEFAULT\n\n    def _solv_pwr_loss(self, vi, vo, ii, io, ta, phase, phase_conf=[], pstate={}):\n        \"\"\"Calculate power and loss in PSwitch",
  "        v = vi[0] - self._params[\"rs\"] * io\n        if phase_conf and phase not in phase_conf:\n            return 0.0, STATE_OFF\n        return v, STATE_DEFAULT\n\n    def _solv_pwr_loss(self, vi, vo, ii, io, ta, phase, phase_conf=[], pstate={}):\n        \"\"\"Calculate power and loss in PSwitch")

# ---- C03 -------------------------------------------------------------------------------------
m("c03-convergence-on-v-only", ["C03"], Y,
  "            if np.allclose(np.array(v), np.array(vi), rtol=vtol) and np.allclose(\n                np.array(i), np.array(ii), rtol=itol\n            ):",
  "            if np.allclose(np.array(v), np.array(vi), rtol=vtol):")
m("c03-compare-v-with-itself", ["C03"], Y,
  "            if np.allclose(np.array(v), np.array(vi), rtol=vtol) and np.allclose(",
  "            if np.allclose(np.array(vi), np.array(vi), rtol=vtol) and np.allclose(")
m("c03-rloss-guard-removed", ["C03"], C,
  "        vo = vi[0] - self._params[\"rs\"] * io * np.sign(vi[0])\n        if np.sign(vo) == np.sign(vi[0]):\n            return vo, STATE_DEFAULT",
  "        vo = vi[0] - self._params[\"rs\"] * io * np.sign(vi[0])\n        if True:\n            return vo, STATE_DEFAULT")
m("c03-maxiter-ignored", ["C03"], Y, "        while iters <= maxiter:", "        while iters <= max(maxiter, 100):")
m("c03-itol-times-100", ["C03"], Y, "                np.array(i), np.array(ii), rtol=itol\n", "                np.array(i), np.array(ii), rtol=itol * 100\n")

# ---- C04 -------------------------------------------------------------------------------------
m("c04-iload-dead-guard-dropped", ["C04"], C,
  "    def _solv_inp_curr(self, vi, vo, io, phase, phase_conf={}, pstate={}):\n        if abs(vi[0]) == 0.0 or _get_lopt(pstate, \"off\", 0, False):\n            return 0.0\n        if not phase_conf:\n            i = self._params[\"ii\"]",
  "    def _solv_inp_curr(self, vi, vo, io, phase, phase_conf={}, pstate={}):\n        if _get_lopt(pstate, \"off\", 0, False):\n            return 0.0\n        if not phase_conf:\n            i = self._params[\"ii\"]")
m("c04-converter-sleep-current-on-dead-supply", ["C04"], C,
  "        if (\n            abs(vi[0]) == 0.0\n            or self._params[\"vo\"] == 0.0\n            or _get_lopt(pstate, \"off\", 0, False)\n        ):\n            return 0.0\n        ve = vi[0] * self._ipr._interp(abs(io), abs(vi[0]))\n        if phase_conf and phase not in phase_conf:\n            return self._params[\"iis\"]",
  "        if phase_conf and phase not in phase_conf:\n            return self._params[\"iis\"]\n        if (\n            abs(vi[0]) == 0.0\n            or self._params[\"vo\"] == 0.0\n            or _get_lopt(pstate, \"off\", 0, False)\n        ):\n            return 0.0\n        ve = vi[0] * self._ipr._interp(abs(io), abs(vi[0]))")
m("c04-sleeping-pswitch-draws-ig", ["C04"], C,
  "        i = io + self._ipr._interp(abs(io), abs(vi[0]))\n        if phase_conf and phase not in phase_conf:\n            i = self._params[\"iis\"]\n        return i\n\n    def _solv_outp_volt(self, vi, ii, io, phase, phase_conf=[], pstate={}):\n        \"\"\"Calculate PSwitch",
  "        i = io + self._ipr._interp(abs(io), abs(vi[0]))\n        if phase_conf and phase not in phase_conf:\n            i += self._params[\"iis\"]\n        return i\n\n    def _solv_outp_volt(self, vi, ii, io, phase, phase_conf=[], pstate={}):\n        \"\"\"Calculate PSwitch")

# ---- C06 -------------------------------------------------------------------------------------
m("c06-pload-sleep-when-listed", ["C06"], C,
  "        elif phase not in phase_conf:\n            p = self._params[\"pwrs\"]\n        else:\n            p = phase_conf[phase]",
  "        elif phase in phase_conf:\n            p = self._params[\"pwrs\"]\n        else:\n            p = phase_conf.get(phase, self._params[\"pwr\"])")
m("c06-rload-unlisted-open", ["C06"], C,
  "        elif phase not in phase_conf:\n            pass\n        else:\n            r = phase_conf[phase]",
  "        elif phase not in phase_conf:\n            r = 1e12\n        else:\n            r = phase_conf[phase]")
m("c06-unknown-phase-ignored", ["C06"], Y,
  "                raise ValueError(\n                    \"The specified phase '{}' is not defined\".format(phase)\n                )\n            phase_list = [phase]",
  "                phase = \"\"\n            phase_list = [phase] if phase != \"\" else list(self._g.attrs[\"phases\"].keys()) or [\"\"]")
m("c06-first-phase-solved-twice", ["C06"], Y,
  "            v, i, iters, state = self._solve(vtol, itol, maxiter, quiet, ph)",
  "            v, i, iters, state = self._solve(vtol, itol, maxiter, quiet, ph if len(phase_list) < 3 or ph != phase_list[-1] else phase_list[0])")

# ---- C05 -------------------------------------------------------------------------------------
m("c05-priority-picks-last-live", ["C05"], C,
  "            if pstate[\"off\"][i] == False and abs(vi[i]) != 0.0:\n                inp = i\n                break",
  "            if pstate[\"off\"][i] == False and abs(vi[i]) != 0.0:\n                inp = i")
m("c05-rs-first-entry-always", ["C05"], C, "            r = abs(self._params[\"rs\"][pinp])", "            r = abs(self._params[\"rs\"][0])")
m("c05-domain-ignores-dead-leading-inputs", ["C05"], Y,
  "            for i in reversed(range(len(vin))):\n                if abs(vin[i]) != 0.0:\n                    idx = i",
  "            for i in reversed(range(len(vin))):\n                if abs(vin[i]) != 0.0 and False:\n                    idx = i")
m("c05-mux-parent-label-grandparent", ["C05"], Y,
  "                        pn = self._g[p[pinp]]._params[\"name\"]", "                        pn = self._get_parent_name(p[pinp])")
m("c05-mux-vin-first-input", ["C05"], Y,
  "                    if pinp != -1 and len(p) > 1:\n                        vi = v[p[pinp]]", "                    if pinp != -1 and len(p) > 1:\n                        vi = v[p[0]]")

# ---- C07 -------------------------------------------------------------------------------------
m("c07-domain-carried-over", ["C07"], Y,
  "        elif self._parents[n] != -1:\n            return self._find_domain(self._parents[n][0], domain, v)\n", "")
m("c07-subsystem-loss-all-rows", ["C07"], Y,
  "                loss = df[df.Domain == src][\"Loss (W)\"].sum()", "                loss = df[df.Type != \"\"][\"Loss (W)\"].sum()")
m("c07-average-unweighted", ["C07"], Y,
  "            aloss = np.sum(np.multiply(np.asarray(ploss), np.asarray(ptime))) / ttot", "            aloss = np.mean(np.asarray(ploss))")
m("c07-energy-cycles-wrong-total", ["C07"], Y,
  "        cycles = 24 * 3600.0 / tot_time", "        cycles = 24 * 3600.0 / max(tot_time, 3600.0)")
m("c07-total-power-includes-loads", ["C07"], Y,
  "            pwr = df[(df.Domain == \"\") & (df[\"Power (W)\"] != \"\")][\"Power (W)\"].sum()",
  "            pwr = df[(df.Type == \"SOURCE\") | (df.Type == \"PMUX\")][\"Power (W)\"].sum()")

# ---- C08 -------------------------------------------------------------------------------------
m("c08-first-row-current", ["C08"], Y, "                        iin += [sum(df[filt][\"Iin (A)\"])]", "                        iin += [df[filt][\"Iin (A)\"].tolist()[0]]")
m("c08-phase-filter-dropped", ["C08"], Y,
  "                            filt = (df[\"Rail in\"] == r) & (df[\"Phase\"] == ph)", "                            filt = (df[\"Rail in\"] == r) & (df[\"Phase\"] != \"\")")
m("c08-loss-sum-is-power", ["C08"], Y, "                        l = sum(df[filt][\"Loss (W)\"])", "                        l = sum(df[filt][\"Loss (W)\"].tolist()[:2])")
m("c08-lone-warning-lost", ["C08"], Y,
  "                        if \"\" in w:\n                            w.remove(\"\")\n                        warn += [\", \".join(w)]",
  "                        if len(w) > 1:\n                            if \"\" in w:\n                                w.remove(\"\")\n                            warn += [\", \".join(w)]\n                        else:\n                            warn += [\"\"]")
m("c08-rail-in-of-mux-first-input", ["C08", "C05"], Y,
  "                        pn = self._g[p[pinp]]._params[\"name\"]", "                        pn = self._g[p[0]]._params[\"name\"]")

# ---- C09 -------------------------------------------------------------------------------------
m("c09-ge-instead-of-gt", ["C09"], C,
  "            if abs(checks[key]) > abs(lim[1]) or abs(checks[key]) < abs(lim[0]):",
  "            if abs(checks[key]) >= abs(lim[1]) or abs(checks[key]) < abs(lim[0]):")
m("c09-signed-comparison", ["C09"], C,
  "            if abs(checks[key]) > abs(lim[1]) or abs(checks[key]) < abs(lim[0]):",
  "            if checks[key] > abs(lim[1]) or abs(checks[key]) < abs(lim[0]):")
m("c09-tp-by-magnitude", ["C09"], C,
  "            if checks[key] > lim[1] or checks[key] < lim[0]:", "            if abs(checks[key]) > abs(lim[1]) or abs(checks[key]) < abs(lim[0]):")
m("c09-converter-gets-vd", ["C09"], C,
  "        return [\"vi\", \"vo\", \"ii\", \"io\", \"pi\", \"po\", \"pl\", \"tr\", \"tp\"]", "        return [\"vi\", \"vo\", \"vd\", \"ii\", \"io\", \"pi\", \"po\", \"pl\", \"tr\", \"tp\"]")
m("c09-iload-loses-pi", ["C09"], C, "        return [\"vi\", \"pi\", \"tr\", \"tp\"]", "        return [\"vi\", \"tr\", \"tp\"]")
m("c09-warn-in-inactive-phase", ["C09"], C,
  "            if phase_conf:\n                if phase not in phase_conf:\n                    return \"\"", "            if phase_conf:\n                if phase not in phase_conf and False:\n                    return \"\"")
m("c09-rollup-any-row", ["C09"], Y, "                if w != \"\":\n                    dwarns[dname] = 1", "                if w != \"\":\n                    dwarns[list(dwarns)[0]] = 1")
m("c09-po-uses-pi", ["C09"], C, "            \"po\": pi - pl,", "            \"po\": pi,")

# ---- C10 -------------------------------------------------------------------------------------
m("c10-wrong-clamp-branch", ["C10"], C,
  "        yc = min(max(y, self._ymin), self._ymax)",
  "        yc = self._ymax if y < self._ymin else min(y, self._ymax)")
m("c10-1d-abs-removed", ["C10"], C, "        return np.interp(np.abs(x), self._x, self._fx)", "        return np.interp(x * 1.0001, self._x, self._fx)")
m("c10-vloss-table-column-major", ["C10"], C,
  "                    vd = np.asarray(vdrop[\"vdrop\"]).reshape(1, -1)[0].tolist()\n                self._ipr = _Interp2d(cur, volt, vd)\n            self._params[\"vdrop\"] = vdrop\n        else:\n            self._params[\"vdrop\"] = abs(vdrop)\n            self._ipr = _Interp0d(abs(vdrop))\n        self._limits = _check_limits(limits)",
  "                    vd = np.asarray(vdrop[\"vdrop\"]).T.reshape(1, -1)[0].tolist()\n                self._ipr = _Interp2d(cur, volt, vd)\n            self._params[\"vdrop\"] = vdrop\n        else:\n            self._params[\"vdrop\"] = abs(vdrop)\n            self._ipr = _Interp0d(abs(vdrop))\n        self._limits = _check_limits(limits)")
m("c10-pswitch-xy-swapped", ["C10"], C,
  "                    igi = np.asarray(ig[\"ig\"]).reshape(1, -1)[0].tolist()\n                self._ipr = _Interp2d(cur, volt, igi)\n        else:\n            self._ipr = _Interp0d(abs(ig))\n        self._params[\"ig\"] = ig\n        self._params[\"iis\"] = abs(iis)\n        self._params[\"rt\"] = abs(rt)\n        self._limits = _check_limits(limits)\n\n    def _solv_inp_curr(self, vi, vo, io, phase, phase_conf=[], pstate={}):\n        \"\"\"Calculate PSwitch",
  "                    igi = np.asarray(ig[\"ig\"]).reshape(1, -1)[0].tolist()\n                self._ipr = _Interp2d(volt, cur, igi)\n        else:\n            self._ipr = _Interp0d(abs(ig))\n        self._params[\"ig\"] = ig\n        self._params[\"iis\"] = abs(iis)\n        self._params[\"rt\"] = abs(rt)\n        self._limits = _check_limits(limits)\n\n    def _solv_inp_curr(self, vi, vo, io, phase, phase_conf=[], pstate={}):\n        \"\"\"Calculate PSwitch")
m("c10-2d-right-edge-uses-ymax", ["C10"], C,
  "        xc = min(max(x, self._xmin), self._xmax)", "        xc = min(max(x, self._xmin), self._xmax)\n        if x > self._xmax:\n            y = self._ymax")

# ---- C11 -------------------------------------------------------------------------------------
m("c11-pswitch-abs-rs-dropped", ["C11"], C, "        self._params[\"rs\"] = abs(rs)\n        if isinstance(ig, dict):\n            _check_interp(ig, \"ig\")\n            if np.min(ig[\"ig\"]) < 0.0:\n                raise ValueError(\"ig values must be >= 0.0\")\n            if len(ig[\"vi\"]) == 1:\n                self._ipr = _Interp1d(ig[\"io\"], ig[\"ig\"][0])\n            else:\n                cur = []\n                volt = []\n                for v in ig[\"vi\"]:\n                    cur += ig[\"io\"]\n                    volt += len(ig[\"io\"]) * [v]\n                    igi = np.asarray(ig[\"ig\"]).reshape(1, -1)[0].tolist()\n                self._ipr = _Interp2d(cur, volt, igi)\n        else:\n            self._ipr = _Interp0d(abs(ig))\n        self._params[\"ig\"] = ig\n        self._params[\"iis\"] = abs(iis)\n        self._params[\"rt\"] = abs(rt)\n        self._limits = _check_limits(limits)\n\n    def _solv_inp_curr(self, vi, vo, io, phase, phase_conf=[], pstate={}):\n        \"\"\"Calculate PSwitch",
  "        self._params[\"rs\"] = rs\n        if isinstance(ig, dict):\n            _check_interp(ig, \"ig\")\n            if np.min(ig[\"ig\"]) < 0.0:\n                raise ValueError(\"ig values must be >= 0.0\")\n            if len(ig[\"vi\"]) == 1:\n                self._ipr = _Interp1d(ig[\"io\"], ig[\"ig\"][0])\n            else:\n                cur = []\n                volt = []\n                for v in ig[\"vi\"]:\n                    cur += ig[\"io\"]\n                    volt += len(ig[\"io\"]) * [v]\n                    igi = np.asarray(ig[\"ig\"]).reshape(1, -1)[0].tolist()\n                self._ipr = _Interp2d(cur, volt, igi)\n        else:\n            self._ipr = _Interp0d(abs(ig))\n        self._params[\"ig\"] = ig\n        self._params[\"iis\"] = abs(iis)\n        self._params[\"rt\"] = abs(rt)\n        self._limits = _check_limits(limits)\n\n    def _solv_inp_curr(self, vi, vo, io, phase, phase_conf=[], pstate={}):\n        \"\"\"Calculate PSwitch")
m("c11-eff-upper-check-weakened", ["C11"], C, "            if np.max(eff[\"eff\"]) > 1.0:", "            if np.max(eff[\"eff\"]) > 1.5:")
m("c11-linreg-vdrop-equal-allowed", ["C11"], C, "        if not (abs(vdrop) < abs(vo)):", "        if not (abs(vdrop) <= abs(vo)):")
m("c11-iload-rt-not-normalised", ["C11"], C, "        self._params[\"iis\"] = abs(iis)\n        self._params[\"rt\"] = abs(rt)\n        self._ipr = None\n        self._params[\"loss\"] = loss", "        self._params[\"iis\"] = abs(iis)\n        self._params[\"rt\"] = rt\n        self._ipr = None\n        self._params[\"loss\"] = loss")
m("c11-pmux-rs-abs-overwritten", ["C11"], C, "        if not isinstance(rs, list):\n            rs = abs(rs)\n        elif not all(isinstance(e, (int, float)) for e in rs):\n            raise ValueError(\"rs values must be numbers!\")\n        self._params[\"rs\"] = rs\n        if isinstance(ig, dict):",
  "        if not isinstance(rs, list):\n            self._params[\"rs\"] = abs(rs)\n        elif not all(isinstance(e, (int, float)) for e in rs):\n            raise ValueError(\"rs values must be numbers!\")\n        self._params[\"rs\"] = rs\n        if isinstance(ig, dict):")
m("c11-limits-length-unchecked", ["C11"], C, "                if len(limits[key]) != 2 or not (", "                if len(limits[key]) < 2 or not (")
m("c11-table-rank-check-dropped", ["C11"], C, "        if arr.ndim < dim or not np.issubdtype(arr.dtype, np.number):", "        if arr.ndim < 0:")
m("c11-table-shape-by-count", ["C11"], C, "    if vsh[0] != zsh[0] or ish[0] != zsh[1]:", "    if np.size(idata[z]) != vsh[0] * ish[0]:")
m("c11-io-monotonic-nonstrict", ["C11"], C, "    if not np.all(np.diff(idata[\"io\"]) > 0):", "    if not np.all(np.diff(idata[\"io\"]) >= 0):")

# ---- C12 -------------------------------------------------------------------------------------
m("c12-converter-iq-dropped", ["C12"], Y, "                                    eff=eff,\n                                    iq=iq,\n", "                                    eff=eff,\n")
m("c12-pload-pwrs-dropped", ["C12"], Y, "                                        pwrs=pwrs,\n", "")
m("c12-rload-loss-dropped", ["C12"], Y, "                                        cname, rs=rs, rt=rt, limits=limits, loss=loss\n", "                                        cname, rs=rs, rt=rt, limits=limits\n")
m("c12-pswitch-iis-from-ig", ["C12"], Y,
  "                                comp=PSwitch(\n                                    cname,\n                                    rs=rs,\n                                    ig=ig,\n                                    limits=limits,\n                                    iis=iis,",
  "                                comp=PSwitch(\n                                    cname,\n                                    rs=rs,\n                                    ig=ig,\n                                    limits=limits,\n                                    iis=iq,")
m("c12-version-gate-reversed", ["C12"], Y, "        if version.parse(sysloss.__version__) < version.parse(ver):", "        if version.parse(sysloss.__version__) > version.parse(ver):")
m("c12-version-gate-string-compare", ["C12"], Y, "        if version.parse(sysloss.__version__) < version.parse(ver):", "        if sysloss.__version__ < ver:")
m("c12-mux-parents-sorted", ["C12"], Y, "                \"parents\": [self._g[n]._params[\"name\"] for n in self._parents[pidx]],", "                \"parents\": sorted(self._g[n]._params[\"name\"] for n in self._parents[pidx]),")
m("c12-linreg-vdrop-default", ["C12"], Y, "                            vdrop = _get_opt(c[\"params\"], \"vdrop\", 0.0)\n                            self.add_comp(\n                                p,\n                                comp=LinReg(", "                            vdrop = _get_opt(c[\"params\"], \"v_drop\", 0.0)\n                            self.add_comp(\n                                p,\n                                comp=LinReg(")
m("c12-source-limits-dropped", ["C12"], Y, "                    self.add_source(Source(entires[e], vo=vo, rs=rs, limits=lim))", "                    self.add_source(Source(entires[e], vo=vo, rs=rs))")
m("c12-mux-rt-dropped", ["C12"], Y, "                        comp=PMux(entires[e], rs=rs, ig=ig, iis=iis, rt=rt, limits=lim),", "                        comp=PMux(entires[e], rs=rs, ig=ig, iis=iis, limits=lim),")
m("c12-rectifier-vdrop-dropped", ["C12"], Y, "                                    vdrop=vdrop,\n                                    rs=rs,\n", "                                    rs=rs,\n")
m("c12-rloss-rt-dropped", ["C12"], Y, "                                    p, comp=RLoss(cname, rs=rs, rt=rt, limits=limits)", "                                    p, comp=RLoss(cname, rs=rs, limits=limits)")

# ---- C13 -------------------------------------------------------------------------------------
m("c13-pload-pwrs-default-drift", ["C13"], C, "PWRS_DEFAULT = 0.0", "PWRS_DEFAULT = 1e-3")
m("c13-converter-iis-missing-from-schema", ["C13"], C, "            \"iis\": {\"typ\": [int, float], \"opt\": True, \"def\": IIS_DEFAULT},\n            \"rt\": {\"typ\": [int, float], \"opt\": True, \"def\": RT_DEFAULT},\n        },\n    }\n\n    def __init__(\n        self,\n        name: str,\n        *,\n        vo: float,\n        eff: float | dict,",
  "            \"rt\": {\"typ\": [int, float], \"opt\": True, \"def\": RT_DEFAULT},\n        },\n    }\n\n    def __init__(\n        self,\n        name: str,\n        *,\n        vo: float,\n        eff: float | dict,")
m("c13-type-gate-removed", ["C13"], C, "            if type(pval) not in cls._cparams[\"params\"][key][\"typ\"]:", "            if False and type(pval) not in cls._cparams[\"params\"][key][\"typ\"]:")
m("c13-limits-not-forwarded", ["C13"], C, "        fparams[\"limits\"] = _get_opt(config, \"limits\", LIMITS_DEFAULT)\n        return cls(name, **fparams)", "        return cls(name, **fparams)")
m("c13-linreg-rt-not-read", ["C13"], C, "        rt = _get_opt(config[\"linreg\"], \"rt\", RT_DEFAULT)\n        return cls(name, vo=v, vdrop=vd, ig=ig, limits=lim, iis=iis, rt=rt)", "        rt = RT_DEFAULT\n        return cls(name, vo=v, vdrop=vd, ig=ig, limits=lim, iis=iis, rt=rt)")
m("c13-mandatory-becomes-optional", ["C13"], C, "            \"rs\": {\"typ\": [int, float], \"opt\": False},\n            \"rt\": {\"typ\": [int, float], \"opt\": True, \"def\": RT_DEFAULT},\n        },\n    }\n\n    def __init__(\n        self,\n        name: str,\n        *,\n        rs: float,\n        rt: float = 0.0,\n        limits: dict = LIMITS_DEFAULT,\n    ):",
  "            \"rs\": {\"typ\": [int, float], \"opt\": True, \"def\": 0.0},\n            \"rt\": {\"typ\": [int, float], \"opt\": True, \"def\": RT_DEFAULT},\n        },\n    }\n\n    def __init__(\n        self,\n        name: str,\n        *,\n        rs: float,\n        rt: float = 0.0,\n        limits: dict = LIMITS_DEFAULT,\n    ):")

# ---- C14 -------------------------------------------------------------------------------------
m("c14-rail-check-skipped-when-name-unchanged", ["C14"], Y, "        elif rail != \"\" and rail != self._g.attrs[\"rails\"][name]:\n", "        elif False:\n")
m("c14-child-compat-not-rechecked", ["C14"], Y, "            if not self._g[c]._component_type in comp._child_types:\n                raise ValueError(\n                    \"Component type {} does not allow the existing childs!\"", "            if False:\n                raise ValueError(\n                    \"Component type {} does not allow the existing childs!\"")
m("c14-second-mux-via-change", ["C14"], Y, "        elif comp._component_type == _ComponentTypes.PMUX and self._get_pmux() != -1:", "        elif False:")
m("c14-add-comp-rail-vs-name-unchecked", ["C14"], Y, "            if (\n                rail in self._g.attrs[\"nodes\"].keys()\n                or rail in self._g.attrs[\"rails\"].values()\n            ):\n                raise ValueError('Rail name \"{}\" is already used!'.format(name))", "            if rail in self._g.attrs[\"rails\"].values():\n                raise ValueError('Rail name \"{}\" is already used!'.format(name))")
m("c14-source-delete-keeps-children", ["C14"], Y, "            if not del_childs:\n                raise ValueError(\"Source must be deleted with its childs\")\n", "")
m("c14-del-comp-accepts-rail-names", ["C14", "C15"], Y, "        if name not in self._g.attrs[\"nodes\"]:\n            raise ValueError(\"Component name does not exist!\")\n        eidx = self._get_index(name)", "        eidx = self._get_index(name)\n        if eidx == -1:\n            raise ValueError(\"Component name does not exist!\")")
m("c14-mux-name-only-checked-for-add", ["C14"], Y, "        if comp._component_type.name == \"PMUX\":\n            for key in self._g.attrs[\"nodes\"]:", "        if comp._component_type.name == \"PMUX\" and isinstance(parent, list):\n            for key in self._g.attrs[\"nodes\"]:")

# ---- C15 -------------------------------------------------------------------------------------
m("c15-set-sys-phases-assign-before-validate", ["C15"], Y,
  "        if len(list(phases.keys())) < 2 and phases != {}:\n            raise ValueError(\"There must be at least two phases!\")\n        if \"N/A\" in list(phases.keys()):\n            raise ValueError('\"N/A\" is a reserved name!')\n        self._g.attrs[\"phases\"] = phases",
  "        self._g.attrs[\"phases\"] = phases\n        if len(list(phases.keys())) < 2 and phases != {}:\n            raise ValueError(\"There must be at least two phases!\")\n        if \"N/A\" in list(phases.keys()):\n            raise ValueError('\"N/A\" is a reserved name!')")
m("c15-add-comp-mutates-before-mux-check", ["C15"], Y,
  "        # can only have one pmux\n        if comp._component_type.name == \"PMUX\":\n            for key in self._g.attrs[\"nodes\"]:\n                if self._g[self._g.attrs[\"nodes\"][key]]._component_type.name == \"PMUX\":\n                    raise ValueError(\"a system can only have one PMux\")\n        # all ok, add component\n",
  "        # can only have one pmux\n        self._g.attrs[\"groups\"][comp._params[\"name\"]] = group\n        if comp._component_type.name == \"PMUX\":\n            for key in self._g.attrs[\"nodes\"]:\n                if self._g[self._g.attrs[\"nodes\"][key]]._component_type.name == \"PMUX\":\n                    raise ValueError(\"a system can only have one PMux\")\n        # all ok, add component\n")
m("c15-change-comp-replaces-before-parent-check", ["C15"], Y,
  "        # check that parent allows component type as child\n        parents = self._get_parents()\n        if parents[eidx] != -1:",
  "        # check that parent allows component type as child\n        parents = self._get_parents()\n        if comp._component_type != _ComponentTypes.LOAD:\n            self._g[eidx] = comp\n        if parents[eidx] != -1:")
m("c15-set-comp-phases-validates-late", ["C15"], Y,
  "        if isinstance(self._g[cidx], RLoss) or isinstance(self._g[cidx], VLoss):\n            raise ValueError(\"Loss components does not support load phases!\")\n\n        self._g.attrs[\"phase_conf\"][name] = phase_conf",
  "        self._g.attrs[\"phase_conf\"][name] = phase_conf\n        if isinstance(self._g[cidx], RLoss) or isinstance(self._g[cidx], VLoss):\n            raise ValueError(\"Loss components does not support load phases!\")\n")
m("c15-del-last-source-checked-after-children-removed", ["C15"], Y,
  "            if len(self._get_sources()) < 2:\n                raise ValueError(\"Cannot delete the last source component!\")\n        childs = self._get_childs()",
  "            if len(self._get_sources()) < 2:\n                for c in rx.descendants(self._g, eidx):\n                    self._g.attrs[\"groups\"][self._g[c]._params[\"name\"]] = \"\"\n                raise ValueError(\"Cannot delete the last source component!\")\n        childs = self._get_childs()")

# ---- C16 -------------------------------------------------------------------------------------
m("c16-pnames-not-updated-on-rename", ["C16"], Y,
  "        for k in self._g.attrs[\"pnames\"]:\n            self._g.attrs[\"pnames\"][k] = [\n                comp._params[\"name\"] if p == name else p\n                for p in self._g.attrs[\"pnames\"][k]\n            ]\n", "")
m("c16-pnames-not-updated-on-reparent", ["C16"], Y,
  "                    if name in pn:\n                        if pname in pn:\n                            pn.remove(name)\n                        else:\n                            pn[pn.index(name)] = pname\n", "")
m("c16-change-comp-keeps-old-group", ["C16"], Y,
  "        del [self._g.attrs[\"groups\"][name]]\n        self._g.attrs[\"groups\"][comp._params[\"name\"]] = group",
  "        old = self._g.attrs[\"groups\"].pop(name)\n        self._g.attrs[\"groups\"][comp._params[\"name\"]] = old or group")
m("c16-change-comp-keeps-phase-conf-under-old-name", ["C16"], Y,
  "        del [self._g.attrs[\"phase_conf\"][name]]\n        self._g.attrs[\"phase_conf\"][comp._params[\"name\"]] = {}",
  "        self._g.attrs[\"phase_conf\"][comp._params[\"name\"]] = {}")
m("c16-domain-order-leak", ["C16"], Y,
  "        elif self._parents[n] != -1:\n            return self._find_domain(self._parents[n][0], domain, v)\n", "")
m("c16-params-shows-stale-interp", ["C16"], C,
  "                if isinstance(self._params[param], dict):\n                    ret[param] = \"interp\"", "                if isinstance(self._params[param], dict):\n                    ret[param] = \"table\"")
m("c16-del-childs-false-drops-grandchildren-group", ["C16"], Y,
  "        del [self._g.attrs[\"groups\"][name]]\n        del [self._g.attrs[\"rails\"][name]]\n        # restore links",
  "        del [self._g.attrs[\"groups\"][name]]\n        del [self._g.attrs[\"rails\"][name]]\n        if not del_childs and childs[eidx] != -1:\n            for c in childs[eidx]:\n                self._g.attrs[\"groups\"][self._g[c]._params[\"name\"]] = \"\"\n        # restore links")
m("c16-phases-report-uses-ctor-value-for-listed", ["C16"], Y,
  "                        if p == \"N/A\":\n                            pwr += [self._g[n]._params[\"pwr\"]]\n                        else:\n                            pwr += [self._phase_lkup[n][p]]",
  "                        if p == \"N/A\" or True:\n                            pwr += [self._g[n]._params[\"pwr\"]]\n                        else:\n                            pwr += [self._phase_lkup[n][p]]")

# ---- C17 -------------------------------------------------------------------------------------
m("c17-battlife-restore-not-in-finally", ["C17"], Y,
  "        finally:\n            # restore source params\n            self._g[pidx]._params[\"vo\"] = vo_org\n            self._g[pidx]._params[\"rs\"] = rs_org",
  "        except ValueError:\n            raise\n        else:\n            # restore source params\n            self._g[pidx]._params[\"vo\"] = vo_org\n            self._g[pidx]._params[\"rs\"] = rs_org")
m("c17-battlife-restores-rs-only", ["C17"], Y,
  "        finally:\n            # restore source params\n            self._g[pidx]._params[\"vo\"] = vo_org\n", "        finally:\n            # restore source params\n")
m("c17-get-conf-returns-module-dict", ["C17"], D, "    return copy.deepcopy(_DEF_CONF)", "    return _DEF_CONF")
m("c17-diag-config-not-copied", ["C17"], D, "        bd_conf = copy.deepcopy(config)", "        bd_conf = config\n        bd_conf[\"graph\"].setdefault(\"label\", \"\")\n        bd_conf[\"graph\"].pop(\"label\")\n        bd_conf[\"node\"][\"default\"][\"margin\"] = \"0.1\"")
m("c17-solve-tags-default-mutated", ["C17"], Y, "            if tags != {}:\n                for key in tags.keys():\n                    res[key] = [tags[key]] * len(names)", "            tags.setdefault(\"_n\", len(names))\n            tags.pop(\"_n\")\n            if ph != \"\":\n                tags[\"phase\"] = ph\n            if tags != {}:\n                for key in tags.keys():\n                    res[key] = [tags[key]] * len(names)")
m("c17-params-report-normalises-in-place", ["C17"], C, "                else:\n                    ret[param] = self._params[param]\n        return ret", "                else:\n                    ret[param] = self._params[param]\n                    if param == \"rt\":\n                        self._params[param] = round(self._params[param], 1)\n        return ret")
m("c16-phase-lookup-cached-across-edits", ["C16"], Y, "    def _set_phase_lkup(self):\n        \"\"\"Make lookup from node # to load phases\"\"\"\n        self._phase_lkup = {}", "    def _set_phase_lkup(self):\n        \"\"\"Make lookup from node # to load phases\"\"\"\n        if len(getattr(self, \"_phase_lkup\", {})) == len(self._g.attrs[\"phase_conf\"]):\n            return\n        self._phase_lkup = {}")

# ---- C18 -------------------------------------------------------------------------------------
m("c18-phase-index-not-advanced", ["C18"], Y, "                    phidx = (phidx + 1) % len(phase_list)", "                    phidx = (phidx + 1) % max(1, len(phase_list) - 1)")
m("c18-duration-of-next-phase", ["C18"], Y, "                        deltat = self._g.attrs[\"phases\"][phase_list[phidx]]", "                        deltat = self._g.attrs[\"phases\"][phase_list[(phidx + 1) % len(phase_list)]]")
m("c18-current-of-first-source", ["C18"], Y, "                    bstate = dfunc(deltat, i[pidx])", "                    bstate = dfunc(deltat, i[self._get_sources()[0]])")
m("c18-stale-voltage-for-solve", ["C18"], Y, "                    self._g[pidx]._params[\"vo\"] = bstate[1]\n", "                    self._g[pidx]._params[\"vo\"] = volt[0]\n")
m("c18-violating-state-logged", ["C18"], Y, "                    if bstate[0] > 0.0 and bstate[1] > cutoff:\n                        t += [t[-1] + deltat]", "                    if bstate[0] >= 0.0 and bstate[1] > cutoff:\n                        t += [t[-1] + deltat]")
m("c18-timestep-factor", ["C18"], Y, "                        deltat = (cap[0] / i[pidx]) * 3.6", "                        deltat = (cap[-1] / i[pidx]) * 3.6")
m("c18-nonsource-battery-accepted", ["C18"], Y, "        if not isinstance(self._g[pidx], Source):\n            raise ValueError(\"Battery must be a source!\")", "        if isinstance(self._g[pidx], (PLoad, ILoad, RLoad)):\n            raise ValueError(\"Battery must be a source!\")")

# ---- C19 -------------------------------------------------------------------------------------
m("c19-edges-reversed", ["C19"], D, "        graph.add_edge(pydot.Edge(p[ep[0]], p[ep[1]], **bd_conf[\"edge\"]))", "        graph.add_edge(pydot.Edge(p[ep[1]], p[ep[0]], **bd_conf[\"edge\"]))")
m("c19-grouped-nodes-also-toplevel", ["C19"], D, "        if sys._g.attrs[\"groups\"][n] == \"\" or not group:\n            add_node(graph, n, bd_conf[\"node\"], ldf)", "        if sys._g.attrs[\"groups\"][n] == \"\" or not group or len(groups) > 2:\n            add_node(graph, n, bd_conf[\"node\"], ldf)")
m("c19-name-override-before-kind", ["C19"], D,
  "        # component type overrieds\n        if comp in attrs:\n            for key in attrs[comp]:\n                conf[key] = attrs[comp][key]\n        # component instance overrides\n        if name in attrs:\n            for key in attrs[name]:\n                conf[key] = attrs[name][key]",
  "        # component instance overrides\n        if name in attrs:\n            for key in attrs[name]:\n                conf[key] = attrs[name][key]\n        # component type overrieds\n        if comp in attrs:\n            for key in attrs[comp]:\n                conf[key] = attrs[comp][key]")
m("c19-default-conf-not-copied", ["C19"], D, "        conf = copy.deepcopy(attrs[\"default\"])", "        conf = attrs[\"default\"]")
m("c19-mix-normalised-by-sum", ["C19"], D, "    maxloss = df[\"Loss (W)\"].max()", "    maxloss = df[\"Loss (W)\"].sum()")
m("c19-nice-float-two-digits-milli", ["C19"], D, "        return \"{}m\".format(round(f * 1e3, 3 - (4 + pwr)))", "        return \"{}m\".format(round(f * 1e3, 2 - (4 + pwr)))")
m("c19-heat-unweighted-phase-average", ["C19"], D, "            avg += phases[key] * df2[df2.Phase == key][\"Loss (W)\"].to_numpy().astype(", "            avg += (w + phases[key]) / (len(phases) + 0.0) * 0 + (sum(phases.values()) / len(phases)) * df2[df2.Phase == key][\"Loss (W)\"].to_numpy().astype(")
m("c19-cluster-label-missing-member", ["C19"], D, "                if sys._g.attrs[\"groups\"][n] == g:\n                    add_node(sg, n, bd_conf[\"node\"], ldf)", "                if sys._g.attrs[\"groups\"][n] == g and sys._g.out_degree(sys._g.attrs[\"nodes\"][n]) < 3:\n                    add_node(sg, n, bd_conf[\"node\"], ldf)")

# ---- C02 -------------------------------------------------------------------------------------
m("c02-mosfet-rectifier-loss-single-fet", ["C02"], C, "            loss += 2 * self._params[\"rs\"] * abs(io) ** 2", "            loss += self._params[\"rs\"] * abs(io) ** 2")
m("c02-linreg-loss-uses-vo-in-dropout", ["C02"], C,
  "        v = min(abs(self._params[\"vo\"]), max(abs(vi) - self._params[\"vdrop\"], 0.0))\n        loss = self._ipr._interp(abs(io), abs(vi)) * abs(vi)",
  "        v = abs(self._params[\"vo\"])\n        loss = self._ipr._interp(abs(io), abs(vi)) * abs(vi)")
m("c02-converter-iq-added-under-load", ["C02"], C,
  "            loss = abs(ii * vi * (1.0 - self._ipr._interp(abs(io), abs(vi))))", "            loss = abs(ii * vi * (1.0 - self._ipr._interp(abs(io), abs(vi)))) + abs(self._params[\"iq\"] * vi)")
m("c02-source-loss-linear", ["C02"], C, "        loss = self._params[\"rs\"] * io * io", "        loss = self._params[\"rs\"] * io * abs(self._params[\"vo\"]) / 12.0")
m("c02-load-peak-temp-without-ambient", ["C02"], C, "            return pi, 0.0, 100.0, tr, tr + ta", "            return pi, 0.0, 100.0, tr, tr + (ta if ta == 25.0 else 25.0)")
m("c02-diode-rectifier-loss-one-diode", ["C02"], C,
  "            vout = vi - 2 * self._ipr._interp(abs(io), abs(vi)) * np.sign(vi)\n            if np.sign(vout) != np.sign(vi) or _get_lopt(pstate, \"off\", 0, False):",
  "            vout = vi - self._ipr._interp(abs(io), abs(vi)) * np.sign(vi)\n            if np.sign(vout) != np.sign(vi) or _get_lopt(pstate, \"off\", 0, False):")
m("c02-pswitch-temp-rise-from-power", ["C02"], C,
  "        tr = loss * self._params[\"rt\"]\n        return pwr, loss, _get_eff(pwr, pwr - loss, 0.0), tr, tr + ta\n\n    def _get_annot(self):\n        \"\"\"Get PSwitch",
  "        tr = pwr * self._params[\"rt\"]\n        return pwr, loss, _get_eff(pwr, pwr - loss, 0.0), tr, tr + ta\n\n    def _get_annot(self):\n        \"\"\"Get PSwitch")
m("c02-load-as-loss-counted-twice", ["C02"], C, "        if self._params[\"loss\"]:\n            return 0.0, pi, 0.0, tr, tr + ta", "        if self._params[\"loss\"]:\n            return pi, pi, 0.0, tr, tr + ta")
