"""Self-test mutants: realistic single-site changes to sysloss that keep the 91 existing tests green
(confirmed with selftest/run.py --tests) and break one of the 20 properties."""

C = "src/sysloss/components.py"
Y = "src/sysloss/system.py"
D = "src/sysloss/diagram.py"
U = "src/sysloss/utils.py"

MUTANTS = []


def m(id_, props, f, old, new):
    MUTANTS.append({"id": id_, "props": props, "edits": [(f, old, new)]})


# ---- C20 -------------------------------------------------------------------------------------
m("c20-trace-mm-factor", ["C20"], U, "a = 0.5 * (w1_mm + w2_mm) * t_mm / 1e3", "a = 0.5 * (w1_mm + w2_mm) * t_mm / 1e-3")
m("c20-trace-mean-width", ["C20"], U, "a = 0.5 * (w1_mm + w2_mm) * t_mm / 1e3", "a = 0.5 * (w1_mm + w1_mm) * t_mm / 1e3")
m("c20-plane-temp-ref", ["C20"], U, "return (rs * l / w) * (1 + tcr * (temp - 20.0))", "return (rs * l / w) * (1 + tcr * (temp - 25.0))")
m("c20-plane-lw-inverted", ["C20"], U, "return (rs * l / w) *", "return (rs * w / l) *")

# ---- C01 -------------------------------------------------------------------------------------
m("c01-parent-voltage-first-child", ["C01"], Y,
  "            if p != -1:  # not root\n                vi = [v[i] for i in p]\n                ii = i[n]",
  "            if p != -1:  # not root\n                vi = [v[i] * (1.0 if n == self._childs[p[0]][0] else 0.999) for i in p]\n                ii = i[n]")
m("c01-mux-current-to-all-parents", ["C01", "C05"], Y,
  "                if pp[pinp] == node:\n                    io += i[c]", "                io += i[c]")
m("c01-eff-args-swapped", ["C01", "C10"], C,
  "        ve = vi[0] * self._ipr._interp(abs(io), abs(vi[0]))", "        ve = vi[0] * self._ipr._interp(abs(vi[0]), abs(io))")
m("c01-linreg-ig-dropped", ["C01"], C,
  "        i = io + self._ipr._interp(abs(io), abs(vi[0]))\n        if phase_conf and phase not in phase_conf:\n            i = self._params[\"iis\"]\n        return i\n\n    def _solv_outp_volt(self, vi, ii, io, phase, phase_conf=[], pstate={}):\n        \"\"\"Calculate LinReg",
  "        i = io\n        if phase_conf and phase not in phase_conf:\n            i = self._params[\"iis\"]\n        return i\n\n    def _solv_outp_volt(self, vi, ii, io, phase, phase_conf=[], pstate={}):\n        \"\"\"Calculate LinReg")
m("c01-rectifier-single-drop", ["C01"], C,
  "            vo = vi[0] - 2 * self._ipr._interp(abs(io), abs(vi[0])) * np.sign(vi[0])\n            if np.sign(vo) == np.sign(vi[0]):\n                return abs(vo), STATE_DEFAULT",
  "            vo = vi[0] - self._ipr._interp(abs(io), abs(vi[0])) * np.sign(vi[0])\n            if np.sign(vo) == np.sign(vi[0]):\n                return abs(vo), STATE_DEFAULT")
m("c01-pswitch-negative-rail-sign", ["C01"], C,
  "        v = abs(vi[0]) - self._params[\"rs\"] * io\n        if phase_conf and phase not in phase_conf:\n            return 0.0, STATE_OFF\n        if vi[0] >= 0.0:\n            return v, STATE_DEFAULT\n        return -v, STATE_DEFAULT\n\n    def _solv_pwr_loss(self, vi, vo, ii, io, ta, phase, phase_conf=[], pstate={}):\n        \"\"\"Calculate power and loss in PSwitch",
  "        v = vi[0] - self._params[\"rs\"] * io\n        if phase_conf and phase not in phase_conf:\n            return 0.0, STATE_OFF\n        return v, STATE_DEFAULT\n\n    def _solv_pwr_loss(self, vi, vo, ii, io, ta, phase, phase_conf=[], pstate={}):\n        \"\"\"Calculate power and loss in PSwitch")
