#!/usr/bin/env python3
"""tools_patch.py FILE <<< JSON [[old,new],...]: exact-once replacement preserving CRLF line endings."""
import sys, json
p = sys.argv[1]
raw = open(p, newline="").read()
crlf = "\r\n" in raw
s = raw.replace("\r\n", "\n")
for old, new in json.load(sys.stdin):
    assert s.count(old) == 1, (s.count(old), old[:80])
    s = s.replace(old, new)
if crlf:
    s = s.replace("\n", "\r\n")
open(p, "w", newline="").write(s)
