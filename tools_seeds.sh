#!/bin/sh
# tools_seeds.sh <tier> <seed...> : sweep all checks over several seeds, print only non-zero outcomes + summary
tier=$1; shift
for seed in "$@"; do
  for p in C01 C02 C03 C04 C05 C06 C07 C08 C09 C10 C11 C12 C13 C14 C15 C16 C17 C18 C19 C20; do
    out=$(VERIF_SEED=$seed ./check $p --tier $tier --no-evidence 2>&1); rc=$?
    if [ $rc -ne 0 ]; then echo "== $p tier=$tier seed=$seed rc=$rc"; echo "$out" | grep -E "violated|VIOLATION|INCONCLUSIVE|Traceback|Error" | cut -c1-900 | head -8; fi
  done
  echo "seed $seed done"
done
