"""Known-finding mechanisms: named predicates over a violation record.

A violation record is {"clause": str, "case": <the case>, "detail": {...}}.
Predicates are keyed by mechanism, never by seed, hash or random values, so a
different violation of the same property is still reported.
"""

MECHANISMS = {}


def mechanism(name):
    def deco(fn):
        MECHANISMS[name] = fn
        return fn

    return deco


def _neg_source_with_rs(args):
    try:
        return args["vo"] < 0 and abs(args.get("rs", 0.0)) > 0
    except Exception:
        return False


@mechanism("source.negative_vo_with_rs")
def source_negative_vo_with_rs(v):
    """F1: Source(vo<0, rs>0) computes vo - rs*io, so the magnitude rises under load.

    Matches only row-level clauses whose failing row IS such a source (or a system balance in a
    phase where such a source delivers current)."""
    d = v["detail"]
    if v["clause"].split(":")[-1] in ("law.vout", "energy.row", "energy.eff", "phys.no_gain", "energy.loss_range"):
        return d.get("kind") == "Source" and _neg_source_with_rs(d.get("args", {}))
    if v["clause"].split(":")[-1] == "energy.system":
        return bool(d.get("neg_sources_with_rs_live"))
    return False


def _unguarded(kind, args):
    """Series forms whose transfer law has no polarity guard (F2)."""
    if kind == "Source":
        return abs(args.get("rs", 0.0)) > 0
    if kind in ("PSwitch", "PMux"):
        rs = args.get("rs", 0.0)
        return (any(abs(x) > 0 for x in rs) if isinstance(rs, list) else abs(rs) > 0)
    if kind == "Rectifier":
        vd = args.get("vdrop", 0.0)
        return not isinstance(vd, dict) and vd == 0.0 and abs(args.get("rs", 0.0)) > 0
    return False


@mechanism("series.no_polarity_guard")
def series_no_polarity_guard(v):
    """F2: an overloaded Source resistance / PSwitch / PMux / MOSFET Rectifier returns an inverted,
    amplified or diverged (inf) output instead of raising 'Unstable system' like RLoss/VLoss/diode do.

    Matches only when the failing row IS such an element and the reference law has no valid output at
    the row's own (Vin, Iout) - or, for the enumerated family, when the series form is one of the four."""
    d = v["detail"]
    cl = v["clause"].split(":")[-1]
    if cl in ("phys.polarity", "phys.no_gain"):
        return _unguarded(d.get("kind"), d.get("args", {})) and d.get("reference_lost_polarity") is True
    if cl == "finite":
        return d.get("origin") is True and _unguarded(d.get("kind"), d.get("args", {}))
    if cl == "overload.decided":
        fam = d.get("family", {})
        return fam.get("series") in ("Source", "PSwitch", "PMux", "RectM") and d.get("outcome") == "returned"
    return False


DOT_KEYWORDS = {"node", "edge", "graph", "digraph", "subgraph", "strict"}


def hostile_name(n, heat=False):
    return (":" in n) or ('"' in n) or (n.lower() in DOT_KEYWORDS) or (n == "Scale")


@mechanism("diagram.hostile_names")
def diagram_hostile_names(v):
    """F13: names that need DOT quoting/escaping. Matches only cases whose spec contains such a name."""
    if not v["clause"].startswith(("diag.", "raw.", "dot.", "heat.")):
        return False
    spec = (v.get("case") or {}).get("spec") or {}
    names = [c["name"] for c in spec.get("comps", [])]
    return any(hostile_name(n) for n in names)


def _depth_to_live(cm, n):
    """Number of sweeps after which component n first shows a voltage (sources and regulators start at vo)."""
    c = cm[n]
    if c["kind"] in ("Source", "Converter", "LinReg") or not c["parents"]:
        return 0
    return 1 + _depth_to_live(cm, c["parents"][0])


@mechanism("mux.transient_input_selection")
def mux_transient_input_selection(v):
    """F19: the Jacobi start brings a lower-priority mux input up before a higher-priority one; for one sweep the
    mux runs from the wrong input and the current computed there overloads a series element -> 'Unstable system'
    although a modest steady state exists.  Matches only benign.solved + 'Unstable system' + such a mux."""
    if v["clause"] != "benign.solved":
        return False
    if "Unstable system" not in str(v["detail"].get("outcome", "")):
        return False
    spec = (v.get("case") or {}).get("spec") or {}
    cm = {c["name"]: c for c in spec.get("comps", [])}
    for c in spec.get("comps", []):
        if c["kind"] == "PMux" and len(c["parents"]) > 1:
            d = [_depth_to_live(cm, p) for p in c["parents"]]
            if any(d[i] > d[j] for i in range(len(d)) for j in range(i + 1, len(d))):
                return True
    return False
