"""Known-finding mechanisms: named predicates over a violation record.

A violation record is {"clause": str, "case": <the case>, "detail": {...}}.
Predicates are keyed by mechanism, never by seed, hash or random values, so a
different violation of the same property is still reported.
"""

MECHANISMS = {}


def mechanism(name):
    def deco(fn):
        MECHANISMS[name] = fn
        return fn

    return deco


def _neg_source_with_rs(args):
    try:
        return args["vo"] < 0 and abs(args.get("rs", 0.0)) > 0
    except Exception:
        return False


@mechanism("source.negative_vo_with_rs")
def source_negative_vo_with_rs(v):
    """F1: Source(vo<0, rs>0) computes vo - rs*io, so the magnitude rises under load.

    Matches only row-level clauses whose failing row IS such a source (or a system balance in a
    phase where such a source delivers current)."""
    d = v["detail"]
    if v["clause"].split(":")[-1] in ("law.vout", "energy.row", "energy.eff", "phys.no_gain", "energy.loss_range"):
        return d.get("kind") == "Source" and _neg_source_with_rs(d.get("args", {}))
    if v["clause"].split(":")[-1] == "energy.system":
        return bool(d.get("neg_sources_with_rs_live"))
    return False
