"""Known-finding mechanisms: named predicates over a violation record.

A violation record is {"clause": str, "case": <the case>, "detail": {...}}.
Predicates are keyed by mechanism, never by seed, hash or random values, so a
different violation of the same property is still reported.
"""

MECHANISMS = {}


def mechanism(name):
    def deco(fn):
        MECHANISMS[name] = fn
        return fn

    return deco
