"""Edit histories: op representation, executor, live-state introspection, invariant walk, observables."""

import contextlib
import copy
import io
import json
import os

from . import gen as G, harness as H, loader, spec as S

# names and rail names are drawn from one pool; several are fragments of one another ("V" in "V3" in "3V3" in "3V3_SW")
# because a name is an identifier, never a pattern
NAME_POOL = ["A", "A1", "A12", "B", "B sw", "C", "D", "V", "V3", "3V3", "3V3_SW", "G1", "H2", "W4"]
KINDS_NONSRC = ["PLoad", "ILoad", "RLoad", "RLoss", "VLoss", "Converter", "LinReg", "PSwitch", "PMux", "Rectifier"]


def comp_entry(rng, kind, name):
    """A valid, benign component description of the given kind."""
    u = lambda a, b: G.sig(rng.uniform(a, b))
    if kind == "Source":
        a = {"vo": u(5, 24), "rs": u(0.0, 0.05)}
    elif kind == "PLoad":
        a = {"pwr": u(0.01, 0.5)}
    elif kind == "ILoad":
        a = {"ii": u(0.001, 0.1)}
    elif kind == "RLoad":
        a = {"rs": u(100, 2000)}
    elif kind == "RLoss":
        a = {"rs": u(0.01, 0.3)}
    elif kind == "VLoss":
        a = {"vdrop": u(0.05, 0.3)}
    elif kind == "Converter":
        a = {"vo": u(1.0, 4.0), "eff": G.sig(rng.uniform(0.7, 0.95), 3), "iq": 1e-4}
    elif kind == "LinReg":
        a = {"vo": u(1.0, 3.0), "vdrop": 0.2, "ig": 1e-4}
    elif kind == "PSwitch":
        a = {"rs": u(0.01, 0.2), "ig": 1e-5}
    elif kind == "PMux":
        a = {"rs": u(0.01, 0.2)}
    else:
        a = {"vdrop": 0.3} if rng.random() < 0.5 else {"rs": u(0.01, 0.1), "ig": 1e-5}
    lim = None
    if rng.random() < 0.2:
        lim = {"vi": [0.0, u(1, 30)]}
    return {"name": name, "kind": kind, "args": a, "limits": lim}


def make(ns, c):
    kw = copy.deepcopy(c["args"])
    if c.get("limits") is not None:
        kw["limits"] = copy.deepcopy(c["limits"])
    return ns.KINDS[c["kind"]](c["name"], **kw)


def apply(sysobj, op, ns=None):
    """Execute one op through the public API. -> ('ok', None) | ('raise', exc)."""
    ns = ns or loader.load()
    o = op["op"]
    try:
        if o == "add_source":
            comp = make(ns, op["comp"])
            sysobj.add_source(comp, group=op.get("group", ""), rail=op.get("rail", ""))
        elif o == "add_comp":
            comp = make(ns, op["comp"])
            sysobj.add_comp(copy.deepcopy(op["parent"]), comp=comp, group=op.get("group", ""), rail=op.get("rail", ""))
        elif o == "change_comp":
            comp = make(ns, op["comp"])
            sysobj.change_comp(op["name"], comp=comp, group=op.get("group", ""), rail=op.get("rail", ""))
        elif o == "del_comp":
            sysobj.del_comp(op["name"], del_childs=op.get("del_childs", True))
        elif o == "set_sys_phases":
            sysobj.set_sys_phases(copy.deepcopy(op["phases"]))
        elif o == "set_comp_phases":
            sysobj.set_comp_phases(op["name"], copy.deepcopy(op["conf"]))
        else:
            raise KeyError(o)
    except Exception as e:  # noqa: BLE001
        return "raise", e
    return "ok", None


def live(sysobj):
    """Structure of the live system, read from the graph (used to GENERATE workloads and for the invariant walk)."""
    g = sysobj._g
    idx_name = {}
    for i in g.node_indices():
        idx_name[i] = g[i]._params["name"]
    kinds = {idx_name[i]: type(g[i]).__name__ for i in g.node_indices()}
    parents = {idx_name[i]: [idx_name[p] for p in g.predecessor_indices(i)] for i in g.node_indices()}
    children = {idx_name[i]: [idx_name[c] for c in g.successor_indices(i)] for i in g.node_indices()}
    return {
        "names": list(g.attrs["nodes"].keys()), "kinds": kinds, "parents": parents, "children": children,
        "rails": dict(g.attrs["rails"]), "groups": dict(g.attrs["groups"]), "phases": dict(g.attrs["phases"]),
        "phase_conf": copy.deepcopy(g.attrs["phase_conf"]), "graph_names": list(idx_name.values()),
        "pnames": {idx_name.get(k, "?%s" % k): list(v) for k, v in g.attrs["pnames"].items() if k in idx_name},
    }


def invariants(sysobj):
    """Invariant walk (C14). Returns a list of (invariant, detail) that do NOT hold."""
    bad = []
    g = sysobj._g
    L = live(sysobj)
    gn = L["graph_names"]
    if not any(kd == "Source" for kd in L["kinds"].values()):
        bad.append(("sources.at_least_one", {"graph_names": sorted(gn)}))  # the last source can never be deleted
    if len(gn) != len(set(gn)):
        bad.append(("names.unique", {"graph_names": sorted(gn)}))
    if sorted(gn) != sorted(L["names"]):
        bad.append(("names.registry_matches_graph", {"graph": sorted(gn), "registry": sorted(L["names"])}))
    rails = [r for r in L["rails"].values() if r != ""]
    if len(rails) != len(set(rails)):
        bad.append(("rails.unique", {"rails": sorted(rails)}))
    clash = sorted(set(rails) & set(gn))
    if clash:
        bad.append(("rails.disjoint_from_names", {"clash": clash}))
    n_mux = 0
    for i in g.node_indices():
        obj = g[i]
        name = obj._params["name"]
        kind = type(obj).__name__
        indeg, outdeg = g.in_degree(i), g.out_degree(i)
        if (indeg == 0) != (kind == "Source"):
            bad.append(("roots.are_exactly_sources", {"component": name, "kind": kind, "in_degree": indeg}))
        if kind in S.LOADS and outdeg > 0:
            bad.append(("loads.have_no_children", {"component": name, "children": L["children"][name]}))
        if indeg > 1 and kind != "PMux":
            bad.append(("only_mux_has_several_parents", {"component": name, "kind": kind, "parents": L["parents"][name]}))
        if kind == "PMux":
            n_mux += 1
        for c in g.successor_indices(i):
            ch = g[c]
            if ch._component_type not in obj._child_types:
                bad.append(("links.acceptable_to_add_comp", {"parent": name, "parent_kind": kind,
                                                              "child": ch._params["name"], "child_kind": type(ch).__name__}))
    if n_mux > 1:
        bad.append(("at_most_one_mux", {"muxes": [n for n, k in L["kinds"].items() if k == "PMux"]}))
    return bad


def registries_consistent(sysobj):
    """Diagnostic: do the name-keyed registries agree with the graph? (internal state; observable through reports)"""
    L = live(sysobj)
    names = set(L["graph_names"])
    out = {}
    for reg in ("rails", "groups", "phase_conf"):
        keys = set(L[reg].keys()) if reg != "phase_conf" else set(L["phase_conf"].keys())
        if keys != names:
            out[reg] = sorted(keys ^ names)
    if set(L["names"]) != names:
        out["nodes"] = sorted(set(L["names"]) ^ names)
    return out


def tree_text(sysobj):
    buf = io.StringIO()
    with contextlib.redirect_stdout(buf):
        sysobj.tree()
    return buf.getvalue()


def frame_obs(st, df):
    if st != "ok":
        return "raised " + type(df).__name__ + ": " + str(df)[:120]
    if df is None:
        return None
    return {"columns": list(df.columns), "rows": [[_norm(v) for v in r] for r in df.values.tolist()]}


def _norm(v):
    if isinstance(v, float) and v != v:
        return "nan"
    if hasattr(v, "item"):
        try:
            return v.item()
        except Exception:
            return repr(v)
    return v


def observe(sysobj, tmpd, with_solve=True):
    """The read-only observables of the property statements (C15/C17), as plain data."""
    obs = {}
    st, r = H.call(tree_text, sysobj)
    obs["tree"] = r if st == "ok" else "raised " + H.exc_sig(r)
    st, r = H.call(sysobj.params, limits=True)
    obs["params"] = frame_obs(st, r)
    st, r = H.call(sysobj.phases)
    obs["phases"] = frame_obs(st, r)
    fn = os.path.join(tmpd, "obs.json")
    st, r = H.call(sysobj.save, fn)
    if st == "ok":
        with open(fn) as f:
            obs["save"] = json.load(f)
    else:
        obs["save"] = "raised " + H.exc_sig(r)
    if with_solve:
        st, r = H.call(sysobj.solve)
        obs["solve"] = frame_obs(st, r)
    return obs


def obs_diff(a, b, rel=0.0):
    """Keys of the observables that differ, with a short description."""
    out = []
    for k in a:
        if not H.cell_equal(_plain(a[k]), _plain(b[k]), rel):
            out.append((k, _first_diff(a[k], b[k])))
    return out


def canon(obs):
    """Observables modulo what the assignment of graph node indices decides: the order of rows and of siblings (and,
    through the order in which sibling currents are summed, the last digits of solved values - compare with rel>0).
    Needed when TWO System objects are compared after a del_comp() with several descendants: rustworkx returns the
    descendants as a hash set with a per-call random order, so the freed indices are recycled in an order that
    differs from object to object (and from run to run) even for identical call sequences."""
    out = {}
    for k, v in obs.items():
        if k == "tree" and isinstance(v, str) and not v.startswith("raised"):
            out[k] = _canon_tree(v)
        elif isinstance(v, dict) and "rows" in v and "columns" in v:
            out[k] = {"columns": v["columns"],
                      "rows": sorted(v["rows"], key=lambda r: json.dumps([x for x in r if isinstance(x, str)]))}
        elif k == "save" and isinstance(v, dict):
            out[k] = _canon_json(v)
        else:
            out[k] = v
    return out


def _canon_json(x):
    if isinstance(x, dict):
        return {k: _canon_json(x[k]) for k in sorted(x)}
    if isinstance(x, list):
        ys = [_canon_json(y) for y in x]
        if ys and all(isinstance(y, dict) for y in ys):
            ys.sort(key=lambda y: json.dumps(y, sort_keys=True, default=repr))
        return ys
    return x


def _canon_tree(txt):
    lines = txt.rstrip("\n").split("\n")
    root = [lines[0], []]
    stack = [(0, root)]
    for ln in lines[1:]:
        pos = ln.find("\u2500\u2500 ")
        if pos < 0:
            return txt  # unknown layout: compare the text as it is
        depth = pos // 4 + 1
        node = [ln[pos + 3:], []]
        while stack and stack[-1][0] >= depth:
            stack.pop()
        stack[-1][1][1].append(node)
        stack.append((depth, node))

    def norm(n):
        return [n[0], sorted((norm(c) for c in n[1]), key=lambda c: json.dumps(c))]

    return norm(root)


def _plain(x):
    return json.loads(json.dumps(x, default=repr))


def _first_diff(a, b):
    if isinstance(a, dict) and isinstance(b, dict) and "rows" in a and "rows" in b:
        if a["columns"] != b["columns"]:
            return {"columns": [a["columns"], b["columns"]]}
        if len(a["rows"]) != len(b["rows"]):
            return {"row_count": [len(a["rows"]), len(b["rows"])],
                    "first_column": [[r[0] for r in a["rows"]], [r[0] for r in b["rows"]]]}
        for i, (x, y) in enumerate(zip(a["rows"], b["rows"])):
            if not H.cell_equal(_plain(x), _plain(y)):
                return {"row": i, "before": x, "after": y}
    sa, sb = json.dumps(a, default=repr, sort_keys=True), json.dumps(b, default=repr, sort_keys=True)
    for i, (x, y) in enumerate(zip(sa, sb)):
        if x != y:
            return {"at": i, "before": sa[max(0, i - 60):i + 60], "after": sb[max(0, i - 60):i + 60]}
    return {"lengths": [len(sa), len(sb)]}


# ---------------------------------------------------------------------------------------------
# random edit ops against the live state (may be accepted or rejected by the code)
# ---------------------------------------------------------------------------------------------
def random_op(rng, L, pool=NAME_POOL, p_collide=0.35):
    names = L["names"]
    if not names:  # (only reachable when the code under test lost every component; invariants() reports that)
        return {"op": "add_source", "comp": comp_entry(rng, "Source", rng.choice(pool)), "group": "", "rail": ""}
    rails = [r for r in L["rails"].values() if r]
    kinds = L["kinds"]

    def fresh_or_colliding():
        if rng.random() < p_collide and (names or rails):
            return rng.choice(names + rails)
        free = [n for n in pool if n not in names and n not in rails]
        return rng.choice(free) if free else rng.choice(pool)

    def some_rail():
        r = rng.random()
        if r < 0.5:
            return ""
        return fresh_or_colliding()

    def target(allow_rail=0.15):
        if rails and rng.random() < allow_rail:
            return rng.choice(rails)
        if rng.random() < 0.05:
            return "nope"
        return rng.choice(names)

    o = rng.choices(["add_source", "add_comp", "change_comp", "del_comp"], weights=[1, 6, 4, 3])[0]
    if o == "add_source":
        return {"op": o, "comp": comp_entry(rng, "Source", fresh_or_colliding()), "group": rng.choice(["", "g"]),
                "rail": some_rail()}
    if o == "add_comp":
        kind = rng.choice(KINDS_NONSRC + ["Source"] if rng.random() < 0.05 else KINDS_NONSRC)
        if kind == "PMux" and rng.random() < 0.8:
            k = rng.randint(1, min(4, len(names)))
            par = [p if not (L["rails"].get(p) and rng.random() < 0.3) else L["rails"][p] for p in rng.sample(names, k)]
        else:
            par = target(0.3)
            if rng.random() < 0.05:
                par = [par]
        return {"op": o, "parent": par, "comp": comp_entry(rng, kind, fresh_or_colliding()),
                "group": rng.choice(["", "g", "h"]), "rail": some_rail()}
    if o == "change_comp":
        t = target()
        old_kind = kinds.get(t)
        r = rng.random()
        if r < 0.5 and old_kind:
            kind = old_kind
        else:
            kind = rng.choice(KINDS_NONSRC + ["Source"])
        newname = t if (rng.random() < 0.5 and t in names) else fresh_or_colliding()
        rail = L["rails"].get(t, "") if rng.random() < 0.3 else some_rail()
        return {"op": o, "name": t, "comp": comp_entry(rng, kind, newname), "group": rng.choice(["", "g"]), "rail": rail}
    return {"op": "del_comp", "name": target(), "del_childs": rng.random() < 0.6}


def start_system(rng, ns=None):
    ns = ns or loader.load()
    c = comp_entry(rng, "Source", rng.choice(NAME_POOL))
    rail = rng.choice(["", "", rng.choice(NAME_POOL)])
    if rail == c["name"]:
        rail = ""
    return ns.System("hist", make(ns, c), group="", rail=rail), {"comp": c, "rail": rail}


def op_sig(op):
    t = op["op"]
    if t in ("add_comp", "add_source", "change_comp"):
        return "%s:%s" % (t, op["comp"]["kind"])
    return t


def warmup_ops(rng):
    """A short accepted prefix that makes the system rich enough for every rejection class to be reachable."""
    pool = list(NAME_POOL)
    rng.shuffle(pool)
    src, a, b, l1, l2, s2, mx, ml = pool[:8]
    ops = [
        ("start", comp_entry(rng, "Source", src)),
        {"op": "add_comp", "parent": src, "comp": comp_entry(rng, rng.choice(["Converter", "RLoss", "PSwitch"]), a), "rail": rng.choice(["", "R_" + a])},
        {"op": "add_comp", "parent": a, "comp": comp_entry(rng, rng.choice(["LinReg", "VLoss", "RLoss"]), b)},
        {"op": "add_comp", "parent": b, "comp": comp_entry(rng, "PLoad", l1)},
        {"op": "add_comp", "parent": a, "comp": comp_entry(rng, "ILoad", l2)},
        {"op": "add_source", "comp": comp_entry(rng, "Source", s2), "rail": rng.choice(["", "R_" + s2])},
    ]
    if rng.random() < 0.7:
        ops.append({"op": "add_comp", "parent": [s2, a] if rng.random() < 0.5 else [a, s2], "comp": comp_entry(rng, "PMux", mx)})
        ops.append({"op": "add_comp", "parent": mx, "comp": comp_entry(rng, "RLoad", ml)})
    return ops


def spec_from_live(sysobj):
    """Reconstruct a SystemSpec from a live System (structure from the graph, parameters from the components)."""
    g = sysobj._g
    par = sysobj._get_parents()
    order = list(__import__("rustworkx").topological_sort(g))
    comps = []
    for i in order:
        obj = g[i]
        name = obj._params["name"]
        args = {k: copy.deepcopy(v) for k, v in obj._params.items() if k not in ("name", "type")}
        kind = type(obj).__name__
        if kind == "Source":
            args.pop("rt", None)
        p = par[i]
        comps.append({
            "name": name, "kind": kind, "args": args, "parents": [] if p == -1 else [g[j]._params["name"] for j in p],
            "group": g.attrs["groups"].get(name, ""), "rail": g.attrs["rails"].get(name, ""),
            "limits": copy.deepcopy(obj._limits), "phase": copy.deepcopy(g.attrs["phase_conf"].get(name)) or None,
        })
    return {"name": g.attrs["name"], "comps": comps, "phases": copy.deepcopy(g.attrs["phases"])}
