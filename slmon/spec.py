"""SystemSpec: a JSON-serialisable description of a system, and build() which constructs the
real System through the PUBLIC API only.

spec = {
  "name": str,
  "comps": [ {"name", "kind", "args": {ctor kwargs}, "parents": [names] (empty for sources),
              "via_rail": [bool,...] (address that parent by its rail name), "group", "rail",
              "limits": dict|None, "phase": list|dict|None}, ... ]   # creation order
  "phases": {name: duration}  (may be empty),
  "phases_first": bool   # set_sys_phases before the component configurations (default True)
}
"""

import copy

from . import loader

LOADS = ("PLoad", "ILoad", "RLoad")
SERIES = ("RLoss", "VLoss", "PSwitch", "PMux", "Rectifier")
ACTIVE_LIST_KINDS = ("Source", "Converter", "LinReg", "PSwitch", "PMux")
TYPE_OF = {
    "Source": "SOURCE", "PLoad": "LOAD", "ILoad": "LOAD", "RLoad": "LOAD", "RLoss": "SLOSS", "VLoss": "SLOSS",
    "Converter": "CONVERTER", "LinReg": "LINREG", "PSwitch": "PSWITCH", "PMux": "PMUX", "Rectifier": "RECTIFIER",
}


def comp_map(spec):
    return {c["name"]: c for c in spec["comps"]}


def children_map(spec):
    ch = {c["name"]: [] for c in spec["comps"]}
    for c in spec["comps"]:
        for p in c.get("parents") or []:
            ch[p].append(c["name"])
    return ch


def make_comp(ns, c):
    """Instantiate the real component object for spec entry c."""
    kw = copy.deepcopy(c["args"])
    if c.get("limits") is not None:
        kw["limits"] = copy.deepcopy(c["limits"])
    if c.get("via_toml"):
        # the component is read from a parameter file (C13: indistinguishable from the constructor call)
        import os
        import tempfile

        import toml

        doc = {TOML_SECTION[c["kind"]]: {k: v for k, v in copy.deepcopy(c["args"]).items() if v is not None}}
        if c["kind"] == "Rectifier":
            doc["rectifier"].setdefault("vdrop", 0.0)  # mandatory in the file; 0.0 is the constructor's default
        if c.get("limits") is not None:
            doc["limits"] = copy.deepcopy(c["limits"])
        d = tempfile.mkdtemp(prefix="slmon-toml-")
        try:
            fn = os.path.join(d, "c.toml")
            with open(fn, "w") as f:
                f.write(toml.dumps(doc))
            return ns.KINDS[c["kind"]].from_file(c["name"], fname=fn)
        finally:
            import shutil

            shutil.rmtree(d, ignore_errors=True)
    return ns.KINDS[c["kind"]](c["name"], **kw)


TOML_SECTION = {"Source": "source", "PLoad": "pload", "ILoad": "iload", "RLoad": "rload", "RLoss": "rloss", "VLoss": "vloss",
                "Converter": "converter", "LinReg": "linreg", "PSwitch": "pswitch", "PMux": "pmux", "Rectifier": "rectifier"}


def parent_ref(spec, c):
    """What the user passes as `parent` to add_comp."""
    cm = comp_map(spec)
    refs = []
    via = c.get("via_rail") or [False] * len(c["parents"])
    for p, vr in zip(c["parents"], via):
        if vr and cm[p].get("rail"):
            refs.append(cm[p]["rail"])
        else:
            refs.append(p)
    if c["kind"] == "PMux":
        return refs
    return refs[0]


def build(spec, ns=None, apply_phases=True):
    """Construct the real System from spec through the public API."""
    ns = ns or loader.load()
    comps = spec["comps"]
    first = comps[0]
    assert first["kind"] == "Source"
    s = ns.System(spec.get("name", "sys"), make_comp(ns, first), group=first.get("group", ""),
                  rail=first.get("rail", ""))
    for c in comps[1:]:
        add_one(s, spec, c, ns)
    if apply_phases:
        apply_phase_conf(s, spec)
    return s


def add_one(s, spec, c, ns=None):
    ns = ns or loader.load()
    if c["kind"] == "Source" and not c.get("parents"):
        s.add_source(make_comp(ns, c), group=c.get("group", ""), rail=c.get("rail", ""))
    else:
        s.add_comp(parent_ref(spec, c), comp=make_comp(ns, c), group=c.get("group", ""), rail=c.get("rail", ""))


def apply_phase_conf(s, spec):
    phases = spec.get("phases") or {}
    first = spec.get("phases_first", True)
    if phases and first:
        s.set_sys_phases(copy.deepcopy(phases))
    for c in spec["comps"]:
        if c.get("phase") is not None:
            s.set_comp_phases(c["name"], copy.deepcopy(c["phase"]))
    if phases and not first:
        s.set_sys_phases(copy.deepcopy(phases))


def topo_orders(spec, rng, how):
    """Return a re-ordered copy of spec['comps'] that is a valid construction order.

    how: 'sources_first' | 'dfs' | 'bfs' | 'random' | 'reverse_sources'
    The first component must remain a Source.
    """
    comps = spec["comps"]
    cm = comp_map(spec)
    ch = children_map(spec)
    srcs = [c["name"] for c in comps if c["kind"] == "Source"]
    if how == "reverse_sources":
        srcs = srcs[::-1]
    elif how == "random":
        rng.shuffle(srcs)
    placed, order = set(), []

    def ready(n):
        return all(p in placed for p in cm[n]["parents"])

    if how in ("sources_first", "reverse_sources", "bfs"):
        queue = list(srcs)
        for n in queue:
            placed.add(n)
            order.append(n)
        pending = [c["name"] for c in comps if c["name"] not in placed]
        while pending:
            prog = False
            for n in list(pending):
                if ready(n):
                    placed.add(n)
                    order.append(n)
                    pending.remove(n)
                    prog = True
            assert prog
    elif how == "dfs":
        pending = set(c["name"] for c in comps)

        def visit(n):
            if n in placed or not ready(n):
                return
            placed.add(n)
            order.append(n)
            for k in ch[n]:
                visit(k)

        for s_ in srcs:
            visit(s_)
        # mux subtrees whose inputs completed late
        rest = [c["name"] for c in comps if c["name"] not in placed]
        while rest:
            prog = False
            for n in list(rest):
                if ready(n):
                    visit(n)
                    prog = True
            rest = [c["name"] for c in comps if c["name"] not in placed]
            assert prog
    else:  # random valid order, first is a source
        first = srcs[0]
        placed.add(first)
        order.append(first)
        pending = [c["name"] for c in comps if c["name"] != first]
        while pending:
            cands = [n for n in pending if ready(n)]
            n = rng.choice(cands)
            placed.add(n)
            order.append(n)
            pending.remove(n)
    out = copy.deepcopy(spec)
    out["comps"] = [copy.deepcopy(cm[n]) for n in order]
    return out


def canonical(spec):
    """Order-independent canonical form (for hashing distinct structures)."""
    cm = {}
    for c in spec["comps"]:
        cm[c["name"]] = {k: c.get(k) for k in ("kind", "args", "parents", "group", "rail", "limits", "phase")}
    return {"comps": cm, "phases": spec.get("phases") or {}}


def shape_sig(spec):
    """Coarse signature: kinds, depth, fan-out, forms - used for 'distinct tuples seen' evidence."""
    cm = comp_map(spec)
    depth = {}
    for c in spec["comps"]:
        depth[c["name"]] = 0 if not c["parents"] else 1 + max(depth[p] for p in c["parents"])
    ch = children_map(spec)
    return {
        "n": len(spec["comps"]),
        "depth": max(depth.values()),
        "fanout": max(len(v) for v in ch.values()),
        "kinds": sorted(set(c["kind"] for c in spec["comps"])),
        "sources": sum(1 for c in spec["comps"] if c["kind"] == "Source"),
    }
