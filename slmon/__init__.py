"""slmon - runtime monitors for geddy11/sysloss (see /verif/DESIGN.md)."""
