"""Helpers shared by the checks: calling the code under test at its API boundary and recording
what came back (value or exception), frame comparison, clause filtering."""

import copy
import io
import contextlib
import math
import os
import shutil
import tempfile

from . import loader
from . import spec as S
from . import model as M


def call(fn, *a, **k):
    """Call code under test. -> ('ok', value) | ('raise', exc)."""
    try:
        return "ok", fn(*a, **k)
    except Exception as e:  # noqa: BLE001 - the exception type is what the monitors look at
        return "raise", e


def exc_sig(e):
    return "%s: %s" % (type(e).__name__, str(e)[:160])


def try_build(spec):
    return call(S.build, spec)


def solve(sysobj, **kw):
    return call(sysobj.solve, **kw)


class Emit:
    """Adapter from model.check_table's emit(clause, ok, detail_fn) to a Ctx, with clause filter/prefix."""

    def __init__(self, ctx, accept=None, prefix="", extra=None):
        self.ctx = ctx
        self.accept = accept
        self.prefix = prefix
        self.extra = extra or {}
        self.failed = []

    def __call__(self, clause, ok, detail_fn=None):
        if self.accept is not None and not any(clause.startswith(a) for a in self.accept):
            return
        name = self.prefix + clause
        self.ctx.ev(name)
        if not ok:
            d = detail_fn() if callable(detail_fn) else {}
            d = dict(d)
            d.update(self.extra)
            self.failed.append(name)
            self.ctx.violate(name, d)


class Collect:
    """emit() sink that only remembers failures (for monitors that post-process)."""

    def __init__(self):
        self.n = 0
        self.failed = []

    def __call__(self, clause, ok, detail_fn=None):
        self.n += 1
        if not ok:
            self.failed.append((clause, detail_fn() if callable(detail_fn) else {}))


def frames_equal(a, b, rel=0.0, ignore_cols=()):
    """Cell-by-cell comparison of two DataFrames. -> list of differences (empty = equal)."""
    diffs = []
    if a is None or b is None:
        if a is not b:
            diffs.append(("none", repr(type(a)), repr(type(b))))
        return diffs
    ca = [c for c in a.columns if c not in ignore_cols]
    cb = [c for c in b.columns if c not in ignore_cols]
    if ca != cb:
        diffs.append(("columns", ca, cb))
        return diffs
    if len(a) != len(b):
        diffs.append(("rows", len(a), len(b)))
        return diffs
    ra, rb = a.to_dict("records"), b.to_dict("records")
    for i, (x, y) in enumerate(zip(ra, rb)):
        for c in ca:
            if not cell_equal(x[c], y[c], rel):
                diffs.append((i, c, x[c], y[c]))
                if len(diffs) > 12:
                    return diffs
    return diffs


def cell_equal(u, v, rel=0.0):
    if M.num(u) and M.num(v):
        if math.isnan(u) and math.isnan(v):
            return True
        if u == v:
            return True
        return rel > 0 and abs(u - v) <= rel * max(abs(u), abs(v))
    if isinstance(u, (list, tuple)) and isinstance(v, (list, tuple)):
        return len(u) == len(v) and all(cell_equal(p, q, rel) for p, q in zip(u, v))
    if isinstance(u, dict) and isinstance(v, dict):
        return u.keys() == v.keys() and all(cell_equal(u[k], v[k], rel) for k in u)
    return type(u) == type(v) and u == v or (u == v and not M.num(u) and not M.num(v))


def keyed_rows(df, keys=("Component", "Phase")):
    """Rows of a report keyed by (Component[, Phase]) so that row order does not matter."""
    out = {}
    if df is None:
        return out
    ks = [k for k in keys if k in df.columns]
    for r in df.to_dict("records"):
        out[tuple(r[k] for k in ks)] = r
    return out


@contextlib.contextmanager
def tmpdir():
    d = tempfile.mkdtemp(prefix="slmon-")
    try:
        yield d
    finally:
        shutil.rmtree(d, ignore_errors=True)


@contextlib.contextmanager
def quiet():
    buf = io.StringIO()
    with contextlib.redirect_stdout(buf):
        yield buf


def mirror_spec(spec, split_source_rs=False):
    """Polarity twin: negate every source and every regulated output that is not below a rectifier.

    split_source_rs: model a source's series resistance in the twin as Source(rs=0) -> RLoss(rs)
    (electrically the same) so that the twin does not run into known finding F1 (negative source with rs).
    Returns (twin_spec, alias) where alias maps an original source name to the twin row that carries its
    output voltage.
    """
    t = copy.deepcopy(spec)
    cm = S.comp_map(t)
    below = {}

    def below_rect(n):
        if n in below:
            return below[n]
        res = False
        for p in cm[n]["parents"]:
            if cm[p]["kind"] == "Rectifier" or below_rect(p):
                res = True
        below[n] = res
        return res

    for c in t["comps"]:
        if c["kind"] in ("Source", "Converter", "LinReg") and not below_rect(c["name"]):
            c["args"]["vo"] = -c["args"]["vo"]
    alias = {}
    if split_source_rs:
        out = []
        for c in t["comps"]:
            out.append(c)
            if c["kind"] == "Source" and abs(c["args"].get("rs", 0.0)) > 0 and c["args"]["vo"] != 0:
                rn = c["name"] + "~rs"
                out.append({"name": rn, "kind": "RLoss", "args": {"rs": c["args"].pop("rs")}, "parents": [c["name"]],
                            "via_rail": [False], "group": "", "rail": "", "limits": None, "phase": None})
                alias[c["name"]] = rn
        for c in out:
            if c["name"] in alias.values():
                continue
            newp, via = [], []
            for p, v in zip(c["parents"], c.get("via_rail") or [False] * len(c["parents"])):
                if p in alias:
                    newp.append(alias[p])
                    via.append(False)
                else:
                    newp.append(p)
                    via.append(v)
            c["parents"], c["via_rail"] = newp, via
        t["comps"] = out
    return t, alias


def noload_unresolved(*tables):
    """True when some Converter / Rectifier row carries an output current that the solver's stopping rule cannot
    resolve (|Iout| below numpy's fixed atol = 1e-8 A, or exactly 0 in one table and not in the other): these kinds
    switch to their NO-LOAD current (iq) at io == 0, so two converged solves of electrically equivalent systems may
    legitimately sit on either side of that switch (e.g. a MOSFET bridge with ig = 1.8 uA above a 0.9 nA load)."""
    seen = {}
    for rows in tables:
        for n, r in rows.items():
            if r.get("Type") in ("CONVERTER", "RECTIFIER"):
                io = r[M.COLS["iout"]]
                if M.num(io):
                    seen.setdefault(n, []).append(abs(io))
    for n, ios in seen.items():
        if any(0.0 < x < M.ATOL for x in ios) or (min(ios) == 0.0 and max(ios) > 0.0 and max(ios) < 10 * M.ATOL):
            return n
    return None


class TwinTol:
    """Tolerances for comparing two independently converged solves of electrically equivalent systems.

    Each solve stops when successive iterates agree to rtol AND numpy's fixed atol=1e-8, so a current is
    only resolved to ~1e-8 A absolute and a voltage to 1e-8 V plus (series resistance x current uncertainty).
    The bounds below are derived from the first table: R_eff of a row = |Vin-Vout|/Iout."""

    def __init__(self, rows, rel=1e-6, k=6.0, rows2=None):
        n = max(1, len(rows))
        self.rel = rel
        self.dI = k * M.ATOL * n
        r_best = 0.0
        for rs_ in (rows, rows2 or {}):
            r_sum = 0.0
            for r in rs_.values():
                io = r[M.COLS["iout"]]
                vi, vo = r[M.COLS["vin"]], r[M.COLS["vout"]]
                if M.num(io) and io > 0 and r.get("Type") not in ("LOAD", "CONVERTER", "LINREG"):
                    r_sum += abs(abs(vi) - abs(vo)) / io
            r_best = max(r_best, r_sum)  # (a table whose currents are unresolved - 0 A - shows no resistance at all)
        self.dV = k * M.ATOL + self.dI * r_best

    def v(self, a, b):
        return abs(a - b) <= self.rel * max(abs(a), abs(b)) + self.dV

    def i(self, a, b):
        return abs(a - b) <= self.rel * max(abs(a), abs(b)) + self.dI

    def p(self, a, b, volt, cur):
        return abs(a - b) <= 2 * self.rel * max(abs(a), abs(b)) + abs(volt) * self.dI + abs(cur) * self.dV + 1e-12
