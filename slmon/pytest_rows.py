"""pytest plugin: run the repository's OWN tests with the row monitor attached to System.solve.

Every table any test obtains from solve() is judged by model.check_table with the structure taken from the
live graph.  Results are written to $SLMON_PYTEST_OUT (JSON).  Used by the thorough tier of C01/C02."""

import json
import os

_res = {"clauses": {}, "violations": [], "tables": 0, "skipped": 0, "errors": []}


def pytest_configure(config):
    from sysloss.system import System
    from . import hist, model as M, harness as H

    orig = System.solve

    def solve(self, **kw):
        df = orig(self, **kw)
        try:
            spec = hist.spec_from_live(self)
            tol = M.Tol(kw.get("vtol", 1e-6), kw.get("itol", 1e-6))
            probe = H.Collect()
            info, _, _ = M.check_table(probe, spec, df, tol, kw.get("ta", 25.0), only_phase=kw.get("phase") or None)
            if any(i.get("polarity_lost") or i.get("skipped") for i in info.values()):
                _res["skipped"] += 1
                return df
            _res["tables"] += 1

            def emit(clause, ok, detail_fn=None):
                if not clause.startswith(("rows.", "finite", "link.", "law.", "energy.", "temp.", "dead.", "label.")):
                    return
                _res["clauses"][clause] = _res["clauses"].get(clause, 0) + 1
                if not ok and len(_res["violations"]) < 40:
                    d = detail_fn() if callable(detail_fn) else {}
                    _res["violations"].append({"clause": clause, "detail": d,
                                               "case": {"spec": spec, "test": os.environ.get("PYTEST_CURRENT_TEST", "")}})

            M.check_table(emit, spec, df, tol, kw.get("ta", 25.0), only_phase=kw.get("phase") or None)
        except Exception as e:  # noqa: BLE001 - the monitor must never break the test it observes
            if len(_res["errors"]) < 5:
                _res["errors"].append("%s: %s (%s)" % (type(e).__name__, e, os.environ.get("PYTEST_CURRENT_TEST", "")))
        return df

    System.solve = solve


def pytest_sessionfinish(session, exitstatus):
    out = os.environ.get("SLMON_PYTEST_OUT")
    _res["exitstatus"] = int(exitstatus)
    if out:
        with open(out, "w") as f:
            json.dump(_res, f, default=repr)
