"""C14 - the tree stays well-formed under any sequence of add_source / add_comp / change_comp / del_comp calls."""

import random

from .. import harness as H, hist, loader

PROP = "C14"
LEVEL = "exploration"
ANCHORS = ["add_comp", "add_source", "change_comp", "del_comp", "_chk_"]  # functions whose reached lines are reported in the evidence
RULE = (
    "cases = random edit histories of 5-60 operations over all four edit methods and all component kinds, with "
    "names AND rails drawn from one shared pool of 10 strings (frequent collisions between names, between rails "
    "and across the two), parents addressed by name and by rail, unchanged / fresh / colliding names and rails in "
    "change_comp, change_comp on components with children, on sources, on the mux, to and from every kind, both "
    "del_childs values, rail-valued and unknown targets. After EVERY call (accepted or rejected) an invariant walk "
    "over the live graph asserts: unique names, unique non-empty rails disjoint from names, roots = Sources, loads "
    "childless, only a PMux has several parents, at most one PMux, every link acceptable to add_comp; the component "
    "set is cross-checked with params(). A history stops at its first violation (so the introducing call is "
    "unambiguous). Non-trivial = history with >= 8 accepted and >= 3 rejected calls; distinct = history seed"
)
REQUIRED = ["wellformed.after_accepted", "wellformed.after_rejected", "params.lists_live_components"]
SIZES = {"quick": 300, "thorough": 2500}
ASSUMPTIONS = ["the invariant is an internal-state invariant by nature: the rustworkx graph and registries are read directly"]


def gen(rng, i, tier):
    return {"seed": rng.randrange(1 << 40), "n_ops": rng.choice([5, 12, 25, 40, 60]), "p_collide": rng.choice([0.2, 0.35, 0.5]),
            "two_systems": i % 3 == 1, "no_reports": i % 2 == 1, "second_is_copy": i % 6 == 1, "reload": i % 4 == 2,
            "zero_prelude": i % 5 == 3, "fragment_rails": i % 5 == 1,
            "leaf_then_parent": i % 10 == 7}  # (i odd: a history without reports between the edits)


def _leaf_then_parent_ops(rng, L):
    """Aimed calls: a parent gets two leaves; the NEWER leaf is deleted and, with no other call in between, the parent is
    deleted with del_childs=False (its remaining child must be re-linked to the grandparent)."""
    src = [n for n, k in L["kinds"].items() if k == "Source"][0]
    taken = set(L["names"]) | set(r for r in L["rails"].values() if r)
    free = [n for n in ["Q5", "Q6", "Q7", "Q8", "Q9"] if n not in taken]
    p_, a_, b_ = free[:3]
    return [{"op": "add_comp", "parent": src, "comp": hist.comp_entry(rng, rng.choice(["Converter", "RLoss", "PSwitch"]), p_)},
            {"op": "add_comp", "parent": p_, "comp": hist.comp_entry(rng, rng.choice(["ILoad", "RLoss"]), a_)},
            {"op": "add_comp", "parent": p_, "comp": hist.comp_entry(rng, rng.choice(["PLoad", "ILoad", "RLoad"]), b_)},
            {"op": "del_comp", "name": b_, "del_childs": rng.random() < 0.5},
            {"op": "del_comp", "name": p_, "del_childs": False}]


def _fragment_rail_ops(rng, L):
    """Aimed calls: a rail owner keeps its name and asks for a rail that is a proper FRAGMENT of its present rail and
    is already in use (as another component's rail or name) - the collision must be refused like any other."""
    long_, short_ = rng.choice([("3V3_SW", "3V3"), ("A12", "A1"), ("A1", "A"), ("V3", "V"), ("B sw", "B"), ("3V3", "V3")])
    src = [n for n, k in L["kinds"].items() if k == "Source"][0]
    taken = set(L["names"]) | set(r for r in L["rails"].values() if r)
    free = [n for n in ["Q1", "Q2", "Q3", "Q4"] if n not in taken]
    owner, other = free[0], free[1]
    kind = rng.choice(["Converter", "RLoss", "PSwitch", "LinReg"])
    e_owner = hist.comp_entry(rng, kind, owner)
    ops = [{"op": "add_comp", "parent": src, "comp": e_owner, "rail": long_}]
    if rng.random() < 0.5:
        ops.append({"op": "add_comp", "parent": src, "comp": hist.comp_entry(rng, "RLoss", other), "rail": short_})
    else:
        ops.append({"op": "add_comp", "parent": src, "comp": hist.comp_entry(rng, "RLoss", short_)})
    ops.append({"op": "change_comp", "name": owner, "comp": hist.comp_entry(rng, kind, owner), "rail": short_})
    return ops


def _zero_prelude(rng, ns):
    """A system whose node index 0 holds a NON-source that is the only child of its parent: created with a source
    that is deleted once a second source exists; the next component added takes the recycled index 0."""
    pool = list(hist.NAME_POOL)
    rng.shuffle(pool)
    s0, s1, b, m = pool[:4]
    c0 = hist.comp_entry(rng, "Source", s0)
    so = ns.System("hist", hist.make(ns, c0), group="", rail="")
    pre = [{"op": "add_source", "comp": hist.comp_entry(rng, "Source", s1)},
           {"op": "add_comp", "parent": s1, "comp": hist.comp_entry(rng, rng.choice(["Converter", "RLoss", "LinReg", "PSwitch", "VLoss"]), b)},
           {"op": "del_comp", "name": s0, "del_childs": True},
           {"op": "add_comp", "parent": b, "comp": hist.comp_entry(rng, rng.choice(["Converter", "RLoss", "ILoad", "PLoad", "RLoad", "PSwitch"]), m)}]
    for op in pre:
        st, exc = hist.apply(so, op, ns)
        if st != "ok":
            raise RuntimeError("prelude op rejected: %r -> %s" % (op, H.exc_sig(exc)))
    # edits aimed at the parent of the index-0 node, tried first
    aimed = [{"op": "change_comp", "name": b, "comp": hist.comp_entry(rng, rng.choice(["PLoad", "ILoad", "RLoad"]), rng.choice([b, b, pool[4]]))},
             {"op": "del_comp", "name": b, "del_childs": False}]
    rng.shuffle(aimed)
    return so, {"comp": c0, "rail": "", "prelude": pre}, aimed[: rng.choice([1, 1, 2])]


def directed():
    return []


def run(ctx, case):
    ns = loader.load()
    rng = random.Random(case["seed"])
    # one system, or two systems alive side by side whose edits are interleaved (a call on one must not reach the other)
    systems = []
    aimed = []
    frag_done = False
    for k_ in range(2 if case.get("two_systems") else 1):
        if k_ == 1 and case.get("second_is_copy"):
            import copy

            so, start = copy.deepcopy(systems[0]["sys"]), dict(systems[0]["start"], copy_of_first=True)
        elif k_ == 0 and case.get("zero_prelude"):
            so, start, aimed = _zero_prelude(rng, ns)
            ctx.count("history", "started with a non-source at the recycled node index 0")
        else:
            so, start = hist.start_system(rng, ns)
        systems.append({"sys": so, "start": start, "broken": set(x[0] for x in hist.invariants(so))})
    ops = []
    acc = rej = 0
    reload_at = rng.randrange(2, max(3, case["n_ops"] // 2)) if case.get("reload") else -1
    for k in range(case["n_ops"]):
        cur = systems[0] if aimed else rng.choice(systems)
        if k == reload_at:
            # the editing continues on the system as LOADED from its own saved file (a loaded system obeys the same rules)
            import os

            with H.quiet(), H.tmpdir() as dd:
                fn_ = os.path.join(dd, "mid.json")
                s_, _r = H.call(cur["sys"].save, fn_)
                s2_, loaded = H.call(ns.System.from_file, fn_) if s_ == "ok" else ("raise", None)
            if s2_ == "ok":
                cur["sys"] = loaded
                ctx.count("history", "continued on the system loaded from its saved file")
        sysobj = cur["sys"]
        try:
            L = hist.live(sysobj)
        except Exception as e:  # the state is too broken to introspect; a previous step reported it
            ctx.count("history", "stopped: live state not introspectable (%s)" % type(e).__name__)
            break
        if case.get("fragment_rails") and k >= 2 and not aimed and cur is systems[0] and not frag_done:
            frag_done = True
            aimed = _fragment_rail_ops(rng, L)
            ctx.count("history", "aimed: rail changed to an in-use fragment of the present rail")
        if case.get("leaf_then_parent") and k >= 2 and not aimed and cur is systems[0] and not frag_done:
            frag_done = True
            aimed = _leaf_then_parent_ops(rng, L)
            ctx.count("history", "aimed: newest leaf deleted, then its parent with del_childs=False, nothing in between")
        op = aimed.pop(0) if aimed else hist.random_op(rng, L, p_collide=case["p_collide"])
        st, exc = hist.apply(sysobj, op, ns)
        ops.append({"op": op, "system": systems.index(cur), "outcome": "accepted" if st == "ok" else H.exc_sig(exc)})
        if st == "ok":
            acc += 1
        else:
            rej += 1
            ctx.count("rejected_with", type(exc).__name__)
        ctx.count("ops", hist.op_sig(op) + ("/ok" if st == "ok" else "/rej"))
        clause = "wellformed.after_accepted" if st == "ok" else "wellformed.after_rejected"
        ctx.ev(clause)
        stop = False
        for other in systems:
            try:
                bad = hist.invariants(other["sys"])
            except Exception as e:  # noqa: BLE001
                bad = [("state.introspectable", {"exception": "%s: %s" % (type(e).__name__, e)})]
            new = [b for b in bad if b[0] not in other["broken"]]
            if new:
                t = op.get("name")
                det = {
                    "invariants_broken": [b[0] for b in new], "details": [b[1] for b in new][:3], "introduced_by": op,
                    "called_on_system": systems.index(cur), "broken_system": systems.index(other),
                    "outcome": ops[-1]["outcome"], "step": k, "start": other["start"], "history": ops[-6:],
                    "target_kind": L["kinds"].get(t), "target_children": L["children"].get(t),
                    "target_is_rail": t in [r for r in L["rails"].values() if r] and t not in L["names"],
                    "name_unchanged": op["op"] == "change_comp" and op["name"] == op["comp"]["name"],
                    "new_kind": op.get("comp", {}).get("kind"),
                    "mux_present": [n for n, kd in L["kinds"].items() if kd == "PMux"],
                    "kind": "%s>%s" % (op["op"], ",".join(sorted(b[0] for b in new))),
                }
                ctx.violate(clause, det)
                stop = True
                break
        if stop:
            break
        if case.get("no_reports"):
            continue  # (a report between two edits may itself refresh what an edit left stale)
        # cross-check with the public view
        st2, pr = H.call(sysobj.params)
        if st2 == "ok":
            got = sorted(pr["Component"].tolist())
            want = sorted(hist.live(sysobj)["graph_names"])
            ctx.check("params.lists_live_components", got == want, {"params": got, "graph": want, "after": op})
        else:
            ctx.count("params_raised", type(pr).__name__)
    if acc >= 8 and rej >= 3:
        ctx.nontrivial(case["seed"])
    ctx.sample({"starts": [x["start"] for x in systems], "first_ops": ops[:6], "accepted": acc, "rejected": rej})
