"""C13 - Kind.from_file(name, fname=toml) builds the same component as Kind(name, **P, limits=L)."""

import copy
import os

from .. import gen as G, harness as H, loader, model as M, spec as S
from . import c11

PROP = "C13"
LEVEL = "exploration"
ANCHORS = ["from_file"]  # functions whose reached lines are reported in the evidence
RULE = (
    "cases = (kind, parameter set P, optional limits L) for all 11 kinds: random subsets of the optional keys, "
    "scalar / list / table values, int and float literals (arrays written homogeneously), [limits] present / "
    "absent / partial, written to a TOML file. Differential oracle: Kind.from_file(name, fname) vs Kind(name, **P, "
    "limits=L) must give identical params() and limits() rows and identical solve() tables in a probe system. "
    "Fault cases: each mandatory key removed (KeyError), the section removed (KeyError), each key given a value "
    "of a wrong type - string, bool, list, table, number (ValueError; generic loader, i.e. all kinds but LinReg). "
    "Non-trivial = an equality case with >= 1 optional key absent and >= 1 present, or a fault case; "
    "distinct = (kind, file content hash)"
)
REQUIRED = ["toml.equal_params", "toml.equal_limits", "toml.equal_solve", "toml.missing_mandatory_keyerror",
            "toml.wrong_type_valueerror", "toml.loads"]
SIZES = {"quick": 1500, "thorough": 8000}
ASSUMPTIONS = ["the toml package of the environment (0.10.2) rejects mixed int/float arrays: arrays are written homogeneously",
               "Rectifier.vdrop is mandatory in the file schema but optional in the constructor: it is always written"]

SECTION = {"Source": "source", "PLoad": "pload", "ILoad": "iload", "RLoad": "rload", "RLoss": "rloss", "VLoss": "vloss",
           "Converter": "converter", "LinReg": "linreg", "PSwitch": "pswitch", "PMux": "pmux", "Rectifier": "rectifier"}
MANDATORY = {"Source": ["vo"], "PLoad": ["pwr"], "ILoad": ["ii"], "RLoad": ["rs"], "RLoss": ["rs"], "VLoss": ["vdrop"],
             "Converter": ["vo", "eff"], "LinReg": ["vo"], "PSwitch": [], "PMux": [], "Rectifier": ["vdrop"]}
NUMERIC_ONLY = {"vo", "rs", "pwr", "pwrs", "rt", "ii", "iis", "iq"}  # keys whose schema admits numbers only (per kind below)
KINDS = list(SECTION)


# the documented default limits: [0, 1e6] for every quantity, [-1e6, 1e6] for the peak temperature
DOC_LIMITS = {k: [0.0, 1.0e6] for k in ("vi", "vo", "vd", "ii", "io", "pi", "po", "pl", "tr", "tp")}
DOC_LIMITS["tp"] = [-1.0e6, 1.0e6]


_scr = {}


def _scratch():
    """One scratch directory per process (outside /repo and /verif), removed at exit."""
    if "d" not in _scr:
        import atexit
        import shutil
        import tempfile

        _scr["d"] = tempfile.mkdtemp(prefix="slmon-c13-")
        atexit.register(shutil.rmtree, _scr["d"], True)
    return _scr["d"]


def floatify(x):
    if isinstance(x, bool):
        return x
    if isinstance(x, int):
        return float(x)
    if isinstance(x, list):
        return [floatify(v) for v in x]
    if isinstance(x, dict):
        return {k: floatify(v) for k, v in x.items()}
    return x


def gen(rng, i, tier):
    kind = c11.cyc("c13kind", KINDS)
    a = c11.base_args(rng, kind)
    if kind == "Rectifier" and "vdrop" not in a:
        a["vdrop"] = 0.0
    for (k, z) in c11.TABLE_PARAMS:
        if k == kind and z in a and rng.random() < 0.3 and not (kind == "Rectifier" and z == "ig" and a.get("vdrop")):
            a[z] = floatify(c11.good_table(rng, z))
    if kind in ("PLoad", "ILoad", "RLoad") and rng.random() < 0.5:
        a["loss"] = rng.random() < 0.5
    # drop a random subset of the optional keys
    for k in list(a):
        if k not in MANDATORY[kind] and rng.random() < 0.45:
            del a[k]
    # int literals for some scalars
    for k in list(a):
        if isinstance(a[k], float) and rng.random() < 0.25 and k != "loss":
            iv = int(round(a[k]))
            if iv >= 1 and not (kind == "LinReg" and k == "vdrop"):
                a[k] = iv
    if kind == "Converter" and rng.random() < 0.08:
        a["eff"] = 1  # an int-valued efficiency of 100 %
    if kind == "LinReg" and "vdrop" in a and not (abs(a["vdrop"]) < abs(a["vo"])):
        a["vdrop"] = 0.1
    if kind == "PMux" and isinstance(a.get("rs"), list):
        a["rs"] = floatify(a["rs"])
    if i % 4 == 1:
        # "house style": optional parameters spelled out with their NEUTRAL (default) values next to the real ones -
        # an explicit default must mean the same in a file as in the constructor call (e.g. a deprecated key left at 0)
        import inspect

        for pn, pp in inspect.signature(loader.load().KINDS[kind].__init__).parameters.items():
            if pn in a or pn in ("self", "name", "limits") or pp.default is inspect.Parameter.empty:
                continue
            if isinstance(pp.default, (int, float)) and rng.random() < 0.6:
                a[pn] = pp.default if rng.random() < 0.7 or isinstance(pp.default, bool) else int(pp.default)
    lim = None
    if rng.random() < 0.6:
        keys = rng.sample(c11_limit_keys(), rng.randint(1, 4))
        lim = {k: [float(G.sig(rng.uniform(0, 0.01))), float(G.sig(G.lu(rng, 0.1, 100.0)))] for k in keys}
    mode = c11.cyc("c13mode", ["equal", "equal", "equal", "missing", "wrong_type", "wrong_type"])
    case = {"kind": kind, "args": a, "limits": lim, "mode": mode, "same_path": i % 3 != 0}
    if mode == "missing":
        opts = MANDATORY[kind] + ["<section>"]
        if kind == "Rectifier":
            opts = ["<section>"]
        case["drop"] = c11.cyc("c13drop" + kind, opts)
    elif mode == "wrong_type":
        if kind == "LinReg" or not (list(a) + MANDATORY[kind]):
            case["mode"] = "equal"
        else:
            keys = sorted(set(list(a) + MANDATORY[kind]))
            key = c11.cyc("c13key" + kind, keys)
            # (False == 0 == 0.0 in Python: wrong-typed values that compare equal to a default must be rejected too)
            # numeric-looking strings and TOML dates are wrong-typed too (float() would swallow the former)
            bads = ["text", "2.5", True, [1.0, 2.0], {"a": 1.0}, 7, False, "1e-3", 0, 0.0, "", 1, {"__date__": "2024-02-29"},
                    "0", [], "nan", {"__datetime__": "2024-02-29T12:00:00"}, "inf", [[1.0]], "-1"]
            case["bad_key"] = key
            case["bad_value"] = c11.cyc("c13bad" + kind + key, bads)
    return case


def c11_limit_keys():
    return ["vi", "vo", "vd", "ii", "io", "pi", "po", "pl", "tr", "tp"]


def _detag(v):
    """JSON-able case value -> the TOML value it stands for (dates are not JSON)."""
    import datetime

    if isinstance(v, dict) and "__date__" in v:
        return datetime.date.fromisoformat(v["__date__"])
    if isinstance(v, dict) and "__datetime__" in v:
        return datetime.datetime.fromisoformat(v["__datetime__"])
    return v


def admits(kind, key, value):
    """Does the documented constructor signature admit this type for this key?"""
    t = type(value)
    if isinstance(value, dict) and ("__date__" in value or "__datetime__" in value):
        return False
    if key == "loss":
        return t is bool
    if key in ("eff",):
        return t in (float, dict, int)
    if key in ("vdrop",):
        return t in (int, float, dict) if kind in ("VLoss", "Rectifier") else t in (int, float)
    if key == "ig":
        return t in (int, float, dict)
    if key == "rs" and kind in ("PMux", "Rectifier"):
        return t in (int, float, list)
    return t in (int, float)


def directed():
    return [{"kind": "Converter", "args": {"vo": 5, "eff": 1}, "limits": None, "mode": "equal"},
            {"kind": "Rectifier", "args": {"vdrop": 0.5}, "limits": {"vi": [0.0, 30.0]}, "mode": "equal"}]


def run(ctx, case):
    import toml

    ns = loader.load()
    kind, a, lim = case["kind"], copy.deepcopy(case["args"]), case["limits"]
    cls = ns.KINDS[kind]
    doc = {SECTION[kind]: copy.deepcopy(a)}
    if lim is not None:
        doc["limits"] = copy.deepcopy(lim)
    mode = case["mode"]
    if mode == "missing":
        if case["drop"] == "<section>":
            doc.pop(SECTION[kind])
        else:
            doc[SECTION[kind]].pop(case["drop"], None)
    elif mode == "wrong_type":
        if admits(kind, case["bad_key"], case["bad_value"]):
            mode = "equal"
            a[case["bad_key"]] = case["bad_value"]
            if kind == "LinReg" or (case["bad_key"] == "vdrop" and kind == "LinReg"):
                pass
        doc[SECTION[kind]][case["bad_key"]] = case["bad_value"]
    tdoc = copy.deepcopy(doc)  # what is written: tagged dates become TOML dates
    if case["mode"] == "wrong_type":
        tdoc[SECTION[kind]][case["bad_key"]] = _detag(case["bad_value"])
    with H.tmpdir() as d:
        # two cases in three rewrite ONE parameter file (edit-and-reload); the others use a path never seen before
        fn = os.path.join(_scratch(), "component.toml") if case.get("same_path", True) else os.path.join(d, "c.toml")
        with open(fn, "w") as f:
            f.write(toml.dumps(tdoc))
        defaults_before = copy.deepcopy(ns.comps.LIMITS_DEFAULT)
        st, comp = H.call(cls.from_file, "X", fname=fn)
        det = {"kind": kind, "file": doc, "mode": mode}
        # "absent optional keys take the constructor defaults": loading a file must not rewrite those defaults
        ctx.check("toml.defaults_untouched", ns.comps.LIMITS_DEFAULT == defaults_before == DOC_LIMITS,
                  dict(det, defaults_before=defaults_before, defaults_after=copy.deepcopy(ns.comps.LIMITS_DEFAULT)))
        if mode == "missing":
            ctx.check("toml.missing_mandatory_keyerror", st == "raise" and isinstance(comp, KeyError),
                      dict(det, dropped=case["drop"], outcome="built" if st == "ok" else H.exc_sig(comp)))
            ctx.nontrivial(["missing", kind, doc])
            ctx.see("missing", "%s:%s" % (kind, case["drop"]))
            return
        if mode == "wrong_type":
            ctx.check("toml.wrong_type_valueerror", st == "raise" and isinstance(comp, ValueError),
                      dict(det, key=case["bad_key"], value=case["bad_value"], outcome="built" if st == "ok" else H.exc_sig(comp)))
            ctx.nontrivial(["wrong", kind, doc])
            ctx.see("wrong_type", "%s.%s=%s" % (kind, case["bad_key"], type(case["bad_value"]).__name__))
            return
        # equality with the constructor call
        kw = copy.deepcopy(a)
        if lim is not None:
            kw["limits"] = copy.deepcopy(lim)
        st2, ref = H.call(cls, "X", **kw)
        if st2 != "ok":
            # the constructor itself rejects P: the loader must not build a component either
            ctx.check("toml.loads", st != "ok", dict(det, constructor=H.exc_sig(ref), loader="built"))
            return
        ctx.check("toml.loads", st == "ok", dict(det, constructor="built", loader=H.exc_sig(comp) if st != "ok" else ""))
        if st != "ok":
            return
        t1 = probe_tables(ns, kind, comp)
        t2 = probe_tables(ns, kind, ref)
        for name in ("params", "limits", "solve"):
            diffs = H.frames_equal(t1[name], t2[name]) if not isinstance(t1[name], str) and not isinstance(t2[name], str) else (
                [] if t1[name] == t2[name] else [(t1[name], t2[name])])
            ctx.check("toml.equal_" + name, not diffs, dict(det, report=name, differences_file_vs_ctor=diffs[:6]))
    absent = [k for k in ("rs", "rt", "iis", "iq", "ig", "pwrs", "vdrop", "loss") if k not in a]
    ctx.see("forms", "%s:%s" % (kind, ",".join(sorted("%s=%s" % (k, type(v).__name__) for k, v in a.items()))))
    if absent and len(a) > len(MANDATORY[kind]):
        ctx.nontrivial(["equal", kind, doc])
    ctx.sample({"kind": kind, "toml": doc})


def probe_tables(ns, kind, comp):
    """params()/limits()/solve() of a probe system that holds the given component object."""
    Src, IL = ns.KINDS["Source"], ns.KINDS["ILoad"]
    if kind == "Source":
        s = ns.System("p", comp)
        s.add_comp("X", comp=IL("L", ii=0.1))
    else:
        s = ns.System("p", Src("S", vo=12.0))
        s.add_comp("S", comp=comp)
        if kind not in S.LOADS:
            s.add_comp("X", comp=IL("L", ii=0.1))
    out = {}
    for name, fn in (("params", s.params), ("limits", s.limits), ("solve", s.solve)):
        st, r = H.call(fn)
        out[name] = r if st == "ok" else "raised " + H.exc_sig(r)
    return out
