"""C18 - batt_life() steps the battery with the solved current, phase by phase (the callbacks are the monitors)."""

import copy
import random

from .. import gen as G, harness as H, loader, model as M, spec as S
from . import _rows

PROP = "C18"
LEVEL = "exploration"
ANCHORS = ["batt_life"]  # functions whose reached lines are reported in the evidence
RULE = (
    "cases = random systems (1-3 sources, optional mux, 0-5 phases) x battery = any source (addressed by name or "
    "rail) x battery model (linear, sagging, impedance-growing, noisy; cut-off reached before capacity or vice "
    "versa; initial state already below cut-off). The user's callbacks record their argument stream: pfunc must be "
    "called first and once; the k-th dfunc call must receive the duration of the k-th phase (cycling in declared "
    "order; without phases 3.6*cap0/I) and the battery's steady-state output current for the voltage / impedance "
    "returned by the previous callback in that phase - the expected current comes from an independent twin System "
    "built from the same spec with Source(vo=v_k, rs=r_k) and solved through the public solve(phase=...). The "
    "returned log must hold the probed state followed by exactly the returned states with cap>0 and v>cutoff, "
    "strictly increasing time, and stop at the first violating state. Non-Source names must raise ValueError. "
    "Non-trivial = run with >= 4 deplete calls; distinct = case seed"
)
REQUIRED = ["probe.first_once", "deplete.duration", "deplete.current", "log.first_row", "log.rows", "log.time_increasing",
            "log.stops_at_first_violation", "battery.must_be_source", "deplete.every_solved_step_handed_over"]
# battery.source_accepted is evaluated only when batt_life raises something that is not a solver failure (never on a correct tree)
CASE_TIMEOUT = 600  # seconds; generous (a case may solve a slowly converging system a few dozen times)
SIZES = {"quick": 90, "thorough": 400}
ASSUMPTIONS = ["phase durations are positive (a zero-duration phase cannot advance the strictly increasing time axis)",
               "a battery that delivers no current in a system without phases is outside the quantifier (infinite time step)",
               "batt_life solves with its internal defaults (vtol=1e-5, itol=1e-6); the twin is solved with the same settings"]


_mon = {"on": False, "solves": 0, "dcalls": 0}


class _NoCount:
    """Stand-in context for building the twin (its build history is not counted twice)."""

    @staticmethod
    def count(*a, **k):
        pass


class HandOverMissing(Exception):
    """Raised by the monitor when the solver keeps being called without the current being handed to dfunc."""


def setup(ctx):
    ns = loader.load()
    Sy = ns.System
    if getattr(Sy._solve, "_slmon18", False):
        return
    orig = Sy._solve

    def _solve(self, *a, **k):
        if _mon["on"]:
            _mon["solves"] += 1
            if _mon["solves"] - _mon["dcalls"] > 3:
                raise HandOverMissing("solver called %d times, dfunc %d times" % (_mon["solves"], _mon["dcalls"]))
        return orig(self, *a, **k)

    _solve._slmon18 = True
    Sy._solve = _solve


def gen(rng, i, tier):
    spec = G.gen_system(
        rng, n_comp=(2, 10), n_src=(1, 3) if rng.random() < 0.5 else (1, 1), mux=0.3, polarity="pos", regime="benign",
        tables=0.3, phases=0.6, max_depth=4, phase_conf=0.5, rails=rng.choice([0.0, 0.6]), general2d=0.0,
    )
    # a depletion step of a zero-duration phase cannot advance the time axis ("strictly increasing time"): phase
    # durations are positive for this property
    for p_ in list(spec.get("phases") or {}):
        if spec["phases"][p_] == 0:
            spec["phases"][p_] = 1.0
    if i % 3 != 0:  # battery addressed by its rail name: make sure a source has one
        srcs = [c for c in spec["comps"] if c["kind"] == "Source"]
        if not any(c.get("rail") for c in srcs):
            rng.choice(srcs)["rail"] = "Vbatt rail"
    return {"spec": spec, "seed": rng.randrange(1 << 40), "model": rng.choice(["linear", "sag", "impedance", "noisy", "plateau", "plateau"]),
            "steps": rng.choice([1, 4, 7, 15, 40]),
            # (boundary: a voltage exactly EQUAL to the cut-off is not "> cutoff" - stair-step / tabulated battery models)
            "end": {5: "cutoff_exact", 1: "already_at"}.get(i % 8, rng.choice(["capacity", "cutoff", "already_below", "capacity"])),
            "history": ["fresh", "identity_change_comp", "index_gaps", "solve_then_move_leaf", "analysed_while_built",
                        "solve_then_swap_leaves", "solve_then_retune", "scratch_first_source"][i % 8], "by_rail": i % 3 != 0,
            "earlier_run": i % 5 in (1, 3), "declared_zero": i % 6 == 2, "on_copy": i % 7 == 3}


def run(ctx, case):
    ns = loader.load()
    rng = random.Random(case["seed"])
    spec = copy.deepcopy(case["spec"])
    srcs = [c for c in spec["comps"] if c["kind"] == "Source"]
    b = rng.choice(srcs)
    name = b["name"]
    railed = [c for c in srcs if c.get("rail")]
    if case.get("by_rail") and railed:
        b = rng.choice(railed)
        name = b["name"]
    v_decl = abs(float(b["args"]["vo"])) or 5.0
    if case.get("declared_zero"):
        # the battery is DECLARED as Source(vo=0.0) - "the model supplies the voltage"; batt_life steps it with the
        # model's voltage all the same
        b["args"]["vo"] = 0.0
        ctx.count("history", "battery declared with vo = 0.0")
    # the system is the product of a build history (edited after analysis, registries out of node order, index gaps)
    def _early_run(so):
        # a short depletion run on the same battery at an EARLIER stage of the build history (other topology / other
        # parameters than the judged run will see)
        import itertools

        kc = itertools.count()
        with H.quiet():
            H.call(so.batt_life, name, cutoff=v_decl * 0.5, pfunc=lambda: (0.01 * 3, v_decl, 0.05),
                   dfunc=lambda t, i: (0.01 * max(0, 2 - next(kc)), v_decl, 0.05))

    spec, sysobj = _rows.build_with_history(ctx, spec, case.get("history", "fresh"), case["seed"] & 0xFFFFFF, prefer=_early_run)
    b = [c for c in spec["comps"] if c["name"] == name][0]
    if case.get("on_copy"):
        sysobj = copy.deepcopy(sysobj)  # the depletion is simulated on a deep copy of the (possibly edited) system
        ctx.count("history", "batt_life on a copy.deepcopy() of the system")
    by_rail = bool(b.get("rail")) and bool(case.get("by_rail", rng.random() < 0.4))
    ref = b["rail"] if by_rail else name
    phases = list((spec.get("phases") or {}).items())
    # --- a name that is not a Source must be rejected ---
    others = [c["name"] for c in spec["comps"] if c["kind"] != "Source"]
    for bad in ([rng.choice(others)] if others else []) + ["no such battery"]:
        st, r = H.call(sysobj.batt_life, bad, cutoff=1.0, pfunc=lambda: (1.0, 5.0, 0.1), dfunc=lambda t, i: (0.0, 0.0, 0.1))
        ctx.check("battery.must_be_source", st == "raise" and isinstance(r, ValueError),
                  {"name": bad, "outcome": "returned" if st == "ok" else H.exc_sig(r)})
    # --- battery model -----------------------------------------------------------------------------
    v0 = v_decl
    steps = case["steps"]
    cap0 = rng.choice([0.25, 2.0, 150.0])  # < 100 Ah -> mAh progress units, >= 100 -> Ah
    r0 = G.sig(rng.uniform(0.01, 0.3))
    cutoff = v0 * 0.6
    model, end = case["model"], case["end"]
    calls = []  # ("p",) | ("d", t, i, returned_state)
    state = {"k": 0, "cur": None}

    def st_at(k):
        cap = cap0 * (1.0 - k / float(steps))
        v = v0
        r = r0
        if model == "sag":
            v = v0 * (1.0 - 0.25 * k / steps)
        elif model == "impedance":
            r = r0 * (1.0 + 0.5 * k)
        elif model == "plateau":
            # look-up-table battery: voltage and impedance stay put for several steps, then jump
            v = v0 * (1.0 - 0.06 * (k // 5))
            r = r0 * (1.0 + 0.8 * (k // 4))
        elif model == "noisy":
            v = v0 * (1.0 - 0.05 * ((k * 7919) % 5) / 5.0)
            r = r0 * (1.0 + 0.3 * ((k * 104729) % 3))
        if end == "cutoff" and k >= max(1, steps // 2):
            v = cutoff * 0.99
        if end == "cutoff_exact" and k >= max(1, steps // 2):
            v = cutoff
        if end == "already_at":
            v = cutoff if k == 0 else cutoff * 1.5  # the INITIAL state sits exactly on the cut-off
        if end == "already_below" :
            v = cutoff * (0.9 if k == 0 else 1.5)  # only the INITIAL state is below the cut-off
        return (cap, v, r)

    def pfunc():
        calls.append(("p",))
        state["cur"] = st_at(0)
        return state["cur"]

    def dfunc(t, i):
        _mon["dcalls"] += 1
        state["k"] += 1
        s_ = st_at(state["k"])
        calls.append(("d", t, i, s_, state["cur"]))
        state["cur"] = s_
        return s_

    tags = {"pack": "A"} if rng.random() < 0.3 else {}
    if phases and case.get("earlier_run"):
        # an earlier depletion run on the same object with the SAME phase names but other durations (a duty-cycle
        # study), after which the phases are set to their real durations again
        import itertools

        alt = {p: G.sig(float(dur) * rng.choice([0.2, 4.0]) + 3.0) for p, dur in phases}
        kcount = itertools.count()

        def _df0(t, i):
            return (0.05 * max(0, 2 - next(kcount)), v0, r0)

        with H.quiet():
            H.call(sysobj.set_sys_phases, alt)
            H.call(sysobj.batt_life, ref, cutoff=cutoff, pfunc=lambda: (0.05 * 3, v0, r0), dfunc=_df0)
            H.call(sysobj.set_sys_phases, {p: dur for p, dur in phases})
        ctx.count("history", "earlier batt_life run with other phase durations")
    _mon.update(on=True, solves=0, dcalls=0)
    try:
        with H.quiet():
            stc, log = H.call(sysobj.batt_life, ref, cutoff=cutoff, pfunc=pfunc, dfunc=dfunc, tags=tags)
    finally:
        _mon["on"] = False
    # every solved step is handed to the depletion callback (the loop cannot advance otherwise)
    ctx.check("deplete.every_solved_step_handed_over", not (stc == "raise" and isinstance(log, HandOverMissing)),
              {"battery": name, "phases": [p for p, _ in phases], "monitor": str(log) if stc == "raise" else "",
               "calls": [list(c[:3]) for c in calls if c[0] == "d"][:5]})
    if stc == "raise" and isinstance(log, HandOverMissing):
        return
    det0 = {"battery": name, "by_rail": by_rail, "model": model, "end": end, "steps": steps, "phases": [p for p, _ in phases]}
    ctx.count("outcome", "returned" if stc == "ok" else type(log).__name__)
    if stc != "ok":
        if isinstance(log, (RuntimeError, ValueError)) and ("teady" in str(log) or "nstable" in str(log)):
            return  # the solver found no steady state for some battery state (C03's business)
        ctx.count("battlife_raised", H.exc_sig(log))
        # a Source of the system (by name or by rail) is a valid battery: nothing but the solver may refuse the run
        idle = isinstance(log, (ZeroDivisionError, OverflowError)) and not phases
        ctx.check("battery.source_accepted", idle, dict(det0, addressed_as=ref, outcome=H.exc_sig(log), callbacks_made=len(calls)))
        return
    if not phases and any(c[0] == "d" and c[2] == 0 for c in calls):
        # an idle battery without phases: "the time to draw 1/1000 of the capacity" is infinite; outside the quantifier
        ctx.count("outcome", "idle battery without phases (skipped)")
        return
    # --- probe first and once -----------------------------------------------------------------------
    np_ = sum(1 for c in calls if c[0] == "p")
    ctx.check("probe.first_once", np_ == 1 and calls and calls[0][0] == "p", dict(det0, probe_calls=np_, first=calls[0][0] if calls else None))
    dcalls = [c for c in calls if c[0] == "d"]
    # --- each deplete call ----------------------------------------------------------------------------
    twin_spec = copy.deepcopy(spec)
    tb = [c for c in twin_spec["comps"] if c["name"] == name][0]
    import time as _time

    t_start = _time.time()
    for k, (_, t, i, ret, prev) in enumerate(dcalls):
        if _time.time() - t_start > 25.0 and k % 5 and k != len(dcalls) - 1:
            # a slowly converging system: after 25 s only every fifth call (and the last) is compared with its twin,
            # so that a case stays far below the watchdog limit
            ctx.count("outcome", "slow system: deplete call not compared (sampled)")
            continue
        ph = phases[k % len(phases)][0] if phases else ""
        tb["args"]["vo"], tb["args"]["rs"] = prev[1], prev[2]
        # the twin goes through the SAME build history (same insertion order, hence bit-identical arithmetic: in an
        # overloaded battery state the iteration is chaotic and a different summation order changes where it ends)
        _, tw = _rows.build_with_history(_NoCount, twin_spec, case.get("history", "fresh"), case["seed"] & 0xFFFFFF)
        kw = dict(vtol=1e-5, itol=1e-6)
        if ph:
            kw["phase"] = ph
        st, df = H.solve(tw, **kw)
        if st != "ok":
            # the public solve() finds no steady state for this battery state (overloaded / slowly diverging system):
            # "the battery's steady-state output current" does not exist, the step is outside the quantifier
            ctx.count("outcome", "no steady state for a battery state (step skipped): " + type(df).__name__)
            continue
        row = [r for r in df.to_dict("records") if r["Component"] == name][0]
        iexp = row["Iout (A)"]
        det = dict(det0, call=k + 1, phase=ph, battery_state_before=list(prev), current_received=i, expected_current=iexp)
        import math

        if not (math.isfinite(i) and math.isfinite(iexp)):
            # a diverged (overloaded) solve - batt_life uses the bare solver; C03's finding F2, not C18's business
            ctx.count("outcome", "non-finite current from an overloaded battery (skipped)")
            ctx.check("deplete.current", i == iexp or (i != i and iexp != iexp), det)
            continue
        ctx.check("deplete.current", abs(i - iexp) <= 1e-9 * max(abs(i), abs(iexp)) + 1e-12, det)
        if phases:
            texp = phases[k % len(phases)][1]
            ctx.check("deplete.duration", t == texp, dict(det, duration_received=t, expected=texp))
        elif i != 0:
            texp = 3.6 * cap0 / i
            ctx.check("deplete.duration", abs(t - texp) <= 1e-12 * abs(texp), dict(det, duration_received=t, expected=texp))
    import math as _m

    if any(not _m.isfinite(c[2]) or not _m.isfinite(c[1]) for c in dcalls):
        # the battery was overloaded at some step (no steady state; batt_life uses the bare solver, finding F2):
        # the time axis of such a run is meaningless and the run is outside the quantifier
        ctx.count("outcome", "overloaded battery: non-finite current handed to dfunc (log not judged)")
        return
    # --- the log ----------------------------------------------------------------------------------------
    rows = log.to_dict("records")
    first = st_at(0)
    ok_first = bool(rows) and rows[0]["Time (s)"] == 0.0 and (rows[0]["Capacity (Ah)"], rows[0]["Voltage (V)"], rows[0]["Resistance (Ohm)"]) == first
    ctx.check("log.first_row", ok_first, dict(det0, first_row=rows[0] if rows else None, probed=list(first)))
    good = lambda s_: s_[0] > 0.0 and s_[1] > cutoff
    # expected: states returned by dfunc while good, stopping at the first bad one
    exp_rows, tnow = [], 0.0
    stop_k = None
    if good(first):
        for k, (_, t, i, ret, prev) in enumerate(dcalls):
            if not good(ret):
                stop_k = k
                break
            tnow += t
            exp_rows.append((tnow, ret))
    n_expected_calls = (stop_k + 1) if stop_k is not None else len(dcalls)
    if not good(first):
        n_expected_calls = 0
    got_rows = [(r["Time (s)"], (r["Capacity (Ah)"], r["Voltage (V)"], r["Resistance (Ohm)"])) for r in rows[1:]]
    same = len(got_rows) == len(exp_rows) and all(
        g[1] == e[1] and abs(g[0] - e[0]) <= 1e-9 * abs(e[0]) for g, e in zip(got_rows, exp_rows))
    ctx.check("log.rows", same, dict(det0, logged=got_rows[:6], expected=exp_rows[:6], n_logged=len(got_rows), n_expected=len(exp_rows)))
    times = [r["Time (s)"] for r in rows]
    ctx.check("log.time_increasing", all(b_ > a_ for a_, b_ in zip(times, times[1:])), dict(det0, times=times[:8]))
    ctx.check("log.stops_at_first_violation", len(dcalls) == n_expected_calls and (stop_k is not None or not good(first) or not dcalls or not good(dcalls[-1][3])),
              dict(det0, deplete_calls=len(dcalls), expected_calls=n_expected_calls, first_violating_call=stop_k))
    if tags:
        ctx.check("log.tags", all(r.get("pack") == "A" for r in rows), dict(det0, columns=list(log.columns)))
    ctx.count("deplete_calls", min(len(dcalls), 50) // 5 * 5)
    ctx.see("models", "%s/%s/%s" % (model, end, "phases" if phases else "nophase"))
    if len(dcalls) >= 4:
        ctx.nontrivial(case["seed"])
    ctx.sample({"battery": name, "model": model, "end": end, "calls": [list(map(_r, c[:3])) for c in dcalls[:4]], "log_rows": len(rows)})


def _r(x):
    return round(x, 6) if isinstance(x, float) else x
