"""C19 - diagrams show exactly the system; heat colours and labels follow the losses."""

import copy
import json
import math
import os
import random
import re
import shutil
import subprocess

from .. import gen as G, harness as H, loader, model as M, spec as S
from . import _rows

PROP = "C19"
LEVEL = "exploration"
ANCHORS = ["_diag", "_prep_loss", "_gcolor", "_nice_float", "make_"]  # functions whose reached lines are reported in the evidence
RULE = (
    "cases = random systems (any shape, multi-source, PMux, phases, groups on any subset) with realistic names "
    "('Buck 1.8V', '-12V (x)/y#1', leading digits, dots, spaces, +-_()/#) and, in the thorough tier, hostile names "
    "(':', '\"', DOT keywords, 'Scale', kind names) x configuration dicts from get_conf() with random default / kind "
    "/ name overrides that conflict on the same key x group on/off x make_diag / make_hdiag. The pydot.Dot object "
    "is captured by wrapping pydot.Dot.write and read directly: node set = component names (+ 'Scale' legend in "
    "heat mode), edge set = parent->child links, clusters = one per non-empty group with exactly its members (none "
    "with group=False), node attributes follow default < kind < name precedence, caller config unchanged; heat "
    "mode: label value within 3 significant digits of the duration-weighted loss of a separate solve(), colours "
    "ordered as the losses, max loss #ff1210, zero loss #2120ff, legend = max loss. The written .raw text is "
    "re-parsed, and a sample is rendered by the real 'dot' to JSON and read back. Non-trivial = >= 5 components, "
    ">= 1 group or override; distinct = (canonical spec hash, config hash, mode)"
)
REQUIRED = ["diag.nodes", "diag.edges", "diag.clusters", "diag.attr_precedence", "diag.config_unchanged",
            "heat.label_value", "heat.colour_order", "heat.extremes", "heat.legend", "raw.reparsed", "dot.rendered"]
SIZES = {"quick": 70, "thorough": 500}
ASSUMPTIONS = ["pydot's quoting of identifiers is part of the environment; names are compared after unquoting",
               "3 significant digits = 5e-3 relative"]

HOSTILE = ["a:b", 'say "hi"', "node", "edge", "graph", "Scale", "Converter", "digraph", "x:y:z", "semi;colon", "back\\slash",
           "subgraph", "strict", "5V:USB"]
_cap = {"graphs": []}
COLD, WARM = (0x21, 0x20, 0xFF), (0xFF, 0x12, 0x10)


def setup(ctx):
    import pydot

    if getattr(pydot.Dot.write, "_slmon", False):
        return
    orig = pydot.Dot.write

    def write(self, path, prog=None, format="raw", encoding=None):
        _cap["graphs"].append(self)
        return orig(self, path, prog=prog, format=format, encoding=encoding)

    write._slmon = True
    pydot.Dot.write = write


def _lossless(rng):
    def c(name, kind, args, parents, group=""):
        return {"name": name, "kind": kind, "args": args, "parents": parents, "group": group, "rail": "", "limits": None, "phase": None,
                "via_rail": [False] * len(parents)}

    comps = [c("Cell", "Source", {"vo": G.sig(rng.uniform(3.0, 12.0)), "rs": rng.choice([0.0, 0])}, [])]
    shape = rng.choice(["source_only", "one_load", "tree", "tree"])
    if shape != "source_only":
        comps.append(c("MCU", rng.choice(["ILoad", "PLoad"]), {"ii": 0.01} if False else {}, ["Cell"]))
        comps[-1]["args"] = {"ii": G.sig(rng.uniform(0.001, 0.2))} if comps[-1]["kind"] == "ILoad" else {"pwr": G.sig(rng.uniform(0.01, 0.5))}
    if shape == "tree":
        comps.append(c("Jumper", "RLoss", {"rs": 0.0}, ["Cell"], "Board"))
        comps.append(c("Ideal buck", "Converter", {"vo": 1.8, "eff": rng.choice([1.0, 1])}, ["Jumper"], "Board"))
        comps.append(c("Core", "PLoad", {"pwr": G.sig(rng.uniform(0.01, 0.3))}, ["Ideal buck"], "Board"))
        comps.append(c("Gate", "PSwitch", {"rs": 0.0}, ["Cell"]))
        comps.append(c("Radio", "RLoad", {"rs": G.sig(rng.uniform(100, 1000))}, ["Gate"]))
    phases = {}
    if shape == "tree" and rng.random() < 0.5:
        phases = {"run": 10.0, "idle": 50.0}
        comps[-1]["phase"] = {"run": comps[-1]["args"]["rs"], "idle": comps[-1]["args"]["rs"] * 10}
    return {"name": "lossless", "comps": comps, "phases": phases, "phases_first": True,
            "_meta": {"regime": "benign", "shape": shape, "polarity": "pos"}}


def gen(rng, i, tier):
    hostile = tier == "thorough" and rng.random() < 0.3
    spec = G.gen_system(
        rng, n_comp=(3, 18 if tier == "thorough" else 12), n_src=(1, 3) if rng.random() < 0.5 else (1, 1), mux=0.4,
        polarity=rng.choice(["pos", "pos", "neg"]), regime="benign", tables=0.2, phases=0.4, max_depth=5, phase_conf=0.5,
        groups=rng.choice([0.0, 0.5, 0.9]), names="realistic", rails=0.2, general2d=0.0,
    )
    scale = 1.0
    heat = rng.random() < 0.5
    if i % 10 == 3:
        # fixed share: nano / pico-power systems (largest loss far below 1e-8 W) drawn as HEAT diagrams
        scale = 10 ** rng.uniform(-12, -9)
        spec = G.scale_currents(spec, scale)
        heat = True
    elif i % 10 == 6:
        # fixed share: completely LOSS-LESS systems (ideal sources, rs = 0 elements, 100 % converters, loads that do
        # not count as loss) drawn as heat diagrams
        spec = _lossless(rng)
        heat = True
    elif rng.random() < 0.25:
        # micro / nano / pico-power systems: the SI formatting and the colour scale must work there too
        scale = 10 ** rng.uniform(-9, -3)
        spec = G.scale_currents(spec, scale)
    elif rng.random() < 0.1:
        scale = 10 ** rng.uniform(2, 5)
        spec = G.scale_currents(spec, scale)
    if hostile:
        k = rng.randrange(len(spec["comps"]))
        old = spec["comps"][k]["name"]
        new = rng.choice(HOSTILE)
        if new not in [c["name"] for c in spec["comps"]]:
            for c in spec["comps"]:
                if c["name"] == old:
                    c["name"] = new
                c["parents"] = [new if p == old else p for p in c["parents"]]
    # group names with spaces etc.
    gmap = {"G1": "Analog front-end", "G2": "Digital (core)", "Analog": "RF/PA", "Digital": "IO 3V3"}
    for c in spec["comps"]:
        if c.get("group"):
            c["group"] = gmap.get(c["group"], c["group"])
    return {"spec": spec, "cseed": rng.randrange(1 << 40), "heat": heat, "group": rng.random() < 0.75,
            "render": i % 9 == 0, "hostile": hostile, "current_scale": scale,
            # the drawn system may be the product of an edit history (registries out of node order, index gaps)
            "history": ["fresh", "identity_change_comp", "index_gaps", "solve_then_move_leaf", "solve_then_phase_conf", "solve_then_change_comp",
                        "solve_then_retune", "solve_then_rekind", "solve_then_swap_leaves", "solve_then_rename", "solve_then_phase_edit", "scratch_first_source"][i % 12]}


def make_config(rng, ns, spec, all_kinds=False):
    """get_conf() with random default / kind / name overrides, conflicting on the same keys."""
    if rng.random() < 0.25 and not all_kinds:
        return {}
    conf = ns.diagram.get_conf()
    keys = ["fillcolor", "shape", "penwidth", "fontcolor", "style", "color"]
    vals = {"fillcolor": ["coral", "gold", "lightblue", "gray80"], "shape": ["box", "ellipse", "octagon"],
            "penwidth": ["0.5", "2.0", "3"], "fontcolor": ["black", "navy", "darkgreen"], "style": ["filled", "filled,rounded"],
            "color": ["black", "red", "blue"]}
    if rng.random() < 0.5:
        for k in rng.sample(keys, 2):
            conf["node"]["default"][k] = rng.choice(vals[k])
    kinds = sorted(set(c["kind"] for c in spec["comps"]))
    for kd in (kinds if (rng.random() < 0.5 or all_kinds) else rng.sample(kinds, min(len(kinds), rng.randint(0, 3)))):
        conf["node"][kd] = {k: rng.choice(vals[k]) for k in rng.sample(keys, rng.randint(1, 3))}
    for c in rng.sample(spec["comps"], min(len(spec["comps"]), rng.randint(0, 3))):
        conf["node"][c["name"]] = {k: rng.choice(vals[k]) for k in rng.sample(keys, rng.randint(1, 3))}
    # a direct conflict: one component of an overridden kind overrides the SAME attributes with other values
    over = [c for c in spec["comps"] if c["kind"] in conf["node"]]
    if over and rng.random() < 0.6:
        c = rng.choice(over)
        conf["node"][c["name"]] = {k: rng.choice([x for x in vals[k] if x != v] or vals[k]) for k, v in conf["node"][c["kind"]].items()}
    if rng.random() < 0.5:
        # precedence is default -> kind -> name whatever the order in which the caller filled the dictionary
        items = list(conf["node"].items())
        rng.shuffle(items)
        conf["node"] = dict(items)
    groups = sorted(set(c["group"] for c in spec["comps"] if c.get("group")))
    for g in groups:
        if rng.random() < 0.4:
            conf["cluster"][g] = {"fillcolor": rng.choice(["ivory", "azure"]), "penwidth": "2.5"}
    if rng.random() < 0.4:
        conf["graph"]["rankdir"] = rng.choice(["TB", "LR", "BT", "RL"])
    if rng.random() < 0.3:
        conf["edge"]["color"] = rng.choice(["gray40", "blue"])
    return conf


def unq(s):
    if isinstance(s, str) and len(s) >= 2 and s[0] == '"' and s[-1] == '"':
        return s[1:-1].replace('\\"', '"')
    return s


def graph_content(g):
    nodes, clusters = {}, {}
    dup = []

    def add(n, where):
        name = unq(n.get_name())
        if name in nodes:
            dup.append(name)
        nodes[name] = (where, {k: unq(v) if isinstance(v, str) else v for k, v in n.get_attributes().items()})

    for n in g.get_nodes():
        add(n, None)
    for sg in g.get_subgraphs():
        sname = unq(sg.get_name())
        members = []
        for n in sg.get_nodes():
            add(n, sname)
            members.append(unq(n.get_name()))
        clusters[sname] = {"attrs": {k: unq(v) if isinstance(v, str) else v for k, v in sg.get_attributes().items()}, "members": members}
    edges = [(unq(e.get_source()), unq(e.get_destination()), dict(e.get_attributes())) for e in g.get_edges()]
    return nodes, clusters, edges, dup


def parse_si(txt):
    m = re.fullmatch(r"\s*(-?[0-9.]+(?:e[-+]?[0-9]+)?)([pnumkM]?)W\s*", txt)
    if not m:
        return None
    mult = {"p": 1e-12, "n": 1e-9, "u": 1e-6, "m": 1e-3, "": 1.0, "k": 1e3, "M": 1e6}[m.group(2)]
    return float(m.group(1)) * mult


def hex_rgb(h):
    h = h.lstrip("#")
    return tuple(int(h[i:i + 2], 16) for i in (0, 2, 4))


def run(ctx, case):
    ns = loader.load()
    rng = random.Random(case["cseed"])
    def _draw_first(so):
        # the same kind of diagram is drawn once BEFORE the history's edits (whatever it keeps must not survive them)
        with H.tmpdir() as d0:
            (ns.diagram.make_hdiag if case["heat"] else ns.diagram.make_diag)(so, fname=os.path.join(d0, "first.raw"))

    spec, sysobj = _rows.build_with_history(ctx, case["spec"], case.get("history", "fresh"), case["cseed"] & 0xFFFFFF, prefer=_draw_first)
    # (a system whose components changed KIND in place after a first drawing is drawn with every kind overridden)
    conf = make_config(rng, ns, spec, all_kinds=case.get("history") == "solve_then_rekind")
    heat, grp = case["heat"], case["group"]
    fn = ns.diagram.make_hdiag if heat else ns.diagram.make_diag
    if conf and rng.random() < 0.5:
        # the caller's configuration object has been used for an earlier drawing with OTHER contents and was then
        # edited in place (a user tuning colours between renderings): the drawing follows the present contents
        other = make_config(random.Random(case["cseed"] ^ 0xC0F), ns, spec)
        if other and other != conf:
            final = copy.deepcopy(conf)
            conf.clear()
            conf.update(copy.deepcopy(other))
            with H.tmpdir() as d0, H.quiet():
                H.call(fn, sysobj, fname=os.path.join(d0, "earlier.raw"), group=grp, config=conf)
            for sect in list(conf):
                if sect not in final:
                    del conf[sect]
            for sect, val in final.items():
                if isinstance(conf.get(sect), dict) and isinstance(val, dict):
                    conf[sect].clear()        # the section dicts are edited in place as well
                    conf[sect].update(val)
                else:
                    conf[sect] = val
            ctx.count("config_object", "reused after in-place edit")
    conf_before = copy.deepcopy(conf)
    names = [c["name"] for c in spec["comps"]]
    det0 = {"mode": "heat" if heat else "plain", "group": grp, "names": names[:12], "hostile": case.get("hostile", False)}
    losses = None
    if heat:
        st, df = H.solve(sysobj)
        if st != "ok":
            ctx.count("outcome", "solve raised (no heat diagram possible)")
            return
        losses = weighted_losses(spec, df)
        if losses is None or any(not math.isfinite(v) for v in losses.values()):
            ctx.count("outcome", "non-finite losses (skipped)")
            return
    with H.tmpdir() as d:
        _cap["graphs"] = []
        raw = os.path.join(d, "g.raw")
        st, r = H.call(fn, sysobj, fname=raw, group=grp, config=conf)
        if st != "ok":
            ctx.check("diag.returns", False, dict(det0, exception=H.exc_sig(r), kind="hostile" if case.get("hostile") else "realistic"))
            return
        ctx.check("diag.config_unchanged", conf == conf_before, dict(det0, before=conf_before, after=conf))
        if not _cap["graphs"]:
            ctx.inconc("pydot.Dot.write hook not reached")
            return
        g = _cap["graphs"][-1]
        nodes, clusters, edges, dup = graph_content(g)
        gat = {k: unq(v) if isinstance(v, str) else v for k, v in g.get_attributes().items()}
        bdg = dict((conf_before or ns.diagram.get_conf())["graph"])
        bdg["label"] = spec.get("name", "sys") + (" - Loss heat map" if heat else "")
        ctx.check("diag.graph_attrs", gat == bdg, dict(det0, got=gat, expected=bdg))
        judge(ctx, ns, spec, conf_before, heat, grp, losses, nodes, clusters, edges, dup, det0, "diag")
        # end-to-end: re-parse the written DOT text
        import pydot

        try:
            txt = open(raw).read()
            gs = pydot.graph_from_dot_data(txt)
            n2, c2, e2, d2 = graph_content(gs[0])
            exp_nodes = set(names) | ({"Scale"} if heat else set())
            # pydot's parser also lists edge endpoints as nodes? compare as sets of declared names
            ok = exp_nodes <= set(n2) | set(x for e in e2 for x in e[:2]) and set((a, b) for a, b, _ in e2) == set(links(spec))
            ctx.check("raw.reparsed", ok, dict(det0, nodes_in_file=sorted(n2)[:20], expected=sorted(exp_nodes)[:20],
                                               kind="hostile" if case.get("hostile") else "realistic"))
        except Exception as e:  # noqa: BLE001
            ctx.check("raw.reparsed", False, dict(det0, exception=H.exc_sig(e), kind="hostile" if case.get("hostile") else "realistic"))
        # a sample through the real dot binary
        if case["render"]:
            if shutil.which("dot") is None:
                ctx.inconc("graphviz 'dot' unavailable")
            else:
                jf = os.path.join(d, "g.json")
                st, r = H.call(fn, sysobj, fname=jf, group=grp, config=conf)
                if st == "ok" and os.path.exists(jf):
                    doc = json.load(open(jf))
                    objs = doc.get("objects", [])
                    jn = set(o["name"] for o in objs if not o["name"].startswith("cluster_") and "nodes" not in o)
                    jc = set(o["name"] for o in objs if o["name"].startswith("cluster_"))
                    je = set((objs[e["tail"]]["name"], objs[e["head"]]["name"]) for e in doc.get("edges", []))
                    exp_nodes = set(names) | ({"Scale"} if heat else set())
                    exp_cl = set("cluster_" + x for x in set(c["group"] for c in spec["comps"] if c.get("group"))) if grp else set()
                    ok = jn == exp_nodes and je == set(links(spec)) and jc == exp_cl
                    ctx.check("dot.rendered", ok, dict(det0, rendered_nodes=sorted(jn)[:20], expected_nodes=sorted(exp_nodes)[:20],
                                                      rendered_clusters=sorted(jc), expected_clusters=sorted(exp_cl),
                                                      kind="hostile" if case.get("hostile") else "realistic"))
                else:
                    ctx.check("dot.rendered", False, dict(det0, exception=H.exc_sig(r) if st != "ok" else "no file",
                                                          kind="hostile" if case.get("hostile") else "realistic"))
    _rows.observe(ctx, spec)
    if heat and losses:
        mxl = max(losses.values())
        ctx.count("max_loss_decade", int(math.floor(math.log10(mxl))) if mxl > 0 else "zero")
    ngroups = len(set(c["group"] for c in spec["comps"] if c.get("group")))
    if len(spec["comps"]) >= 5 and (ngroups or conf):
        ctx.nontrivial([S.canonical(spec), conf_before, heat, grp])
    ctx.sample({"names": names[:10], "mode": det0["mode"], "group": grp, "config_overrides": sorted((conf or {}).get("node", {}).keys())})


def links(spec):
    return [(p, c["name"]) for c in spec["comps"] for p in c["parents"]]


def weighted_losses(spec, df):
    _, per, _ = M.split_table(df)
    phases = spec.get("phases") or {}
    out = {}
    for c in spec["comps"]:
        n = c["name"]
        try:
            if phases:
                tot = sum(phases.values())
                out[n] = sum(per[p]["rows"][n][M.COLS["l"]] * d for p, d in phases.items()) / tot
            else:
                out[n] = per[""]["rows"][n][M.COLS["l"]]
        except KeyError:
            return None
    return out


def judge(ctx, ns, spec, conf, heat, grp, losses, nodes, clusters, edges, dup, det0, prefix):
    names = [c["name"] for c in spec["comps"]]
    hk = "hostile" if det0.get("hostile") else "realistic"
    exp_nodes = set(names) | ({"Scale"} if heat else set())
    ctx.check("diag.nodes", set(nodes) == exp_nodes and not dup,
              dict(det0, missing=sorted(exp_nodes - set(nodes)), extra=sorted(set(nodes) - exp_nodes), duplicated=dup, kind=hk))
    got_e = sorted((a, b) for a, b, _ in edges)
    ctx.check("diag.edges", got_e == sorted(links(spec)), dict(det0, edges=got_e[:20], expected=sorted(links(spec))[:20], kind=hk))
    groups = {}
    for c in spec["comps"]:
        if c.get("group"):
            groups.setdefault(c["group"], []).append(c["name"])
    if grp:
        exp_cl = {"cluster_" + g: sorted(m) for g, m in groups.items()}
    else:
        exp_cl = {}
    got_cl = {k: sorted(v["members"]) for k, v in clusters.items()}
    labels_ok = all(clusters[k]["attrs"].get("label") == k[len("cluster_"):] for k in clusters)
    top_ok = all((nodes[n][0] is None) == (not (grp and cm_group(spec, n))) for n in names if n in nodes)
    ctx.check("diag.clusters", got_cl == exp_cl and labels_ok and top_ok, dict(det0, clusters=got_cl, expected=exp_cl, kind=hk))
    # attribute precedence default < kind < name
    bd = conf if conf else ns.diagram.get_conf()
    bad = []
    cm = S.comp_map(spec)
    for n in names:
        if n not in nodes:
            continue
        want = dict(bd["node"]["default"])
        want.update(bd["node"].get(cm[n]["kind"], {}))
        want.update(bd["node"].get(n, {}))
        got = dict(nodes[n][1])
        if heat:
            for k in ("fillcolor", "fontcolor", "label"):
                want.pop(k, None)
                got.pop(k, None)
        if got != want:
            bad.append((n, cm[n]["kind"], {k: (got.get(k), want.get(k)) for k in set(got) | set(want) if got.get(k) != want.get(k)}))
    ctx.check("diag.attr_precedence", not bad, dict(det0, differences_got_vs_expected=bad[:5], kind=hk))
    # edges carry the configured edge attributes, clusters default < group-name overrides (+ their label)
    ebad = [(a, b, at) for a, b, at in edges if {k: unq(v) if isinstance(v, str) else v for k, v in at.items()} != dict(bd["edge"])]
    ctx.check("diag.edge_attrs", not ebad, dict(det0, expected=bd["edge"], bad=ebad[:4], kind=hk))
    cbad = []
    for cname, cl in clusters.items():
        g_ = cname[len("cluster_"):]
        want = dict(bd["cluster"]["default"])
        want.update(bd["cluster"].get(g_, {}))
        want["label"] = g_
        if cl["attrs"] != want:
            cbad.append((cname, {k: (cl["attrs"].get(k), want.get(k)) for k in set(cl["attrs"]) | set(want) if cl["attrs"].get(k) != want.get(k)}))
    ctx.check("diag.cluster_attrs", not cbad, dict(det0, differences_got_vs_expected=cbad[:4], kind=hk))
    if not heat:
        return
    # heat: labels, colours, legend
    mx = max(losses.values()) if losses else 0.0
    bad_l, mixes = [], []
    for n in names:
        if n not in nodes:
            continue
        a = nodes[n][1]
        lab = a.get("label", "")
        parts = lab.split("\n") if "\n" in lab else lab.split("\\n")
        val = parse_si(parts[-1]) if len(parts) >= 2 else None
        L = losses[n]
        if val is None or parts[0] != n or abs(val - L) > 5e-3 * abs(L) + 1e-30:
            bad_l.append((n, lab, L))
        try:
            rgb = hex_rgb(a.get("fillcolor", ""))
            mixes.append((L, (rgb[0] - COLD[0]) / float(WARM[0] - COLD[0]), a.get("fillcolor"), n))
        except Exception:  # noqa: BLE001
            bad_l.append((n, "fillcolor", a.get("fillcolor")))
    ctx.check("heat.label_value", not bad_l, dict(det0, bad=bad_l[:5], kind=hk))
    mixes.sort(key=lambda x: x[0])
    order_ok = all(b[1] >= a[1] - 1.0 / 222 for a, b in zip(mixes, mixes[1:]))
    ctx.check("heat.colour_order", order_ok, dict(det0, losses_and_mix=[(m[0], round(m[1], 3), m[2]) for m in mixes][:10], kind=hk))
    ext_bad = []
    for L, mix, col, n in mixes:
        if mx > 0 and L == mx and col.lower() != "#ff1210":
            ext_bad.append((n, L, col, "max loss must be fully warm"))
        if L == 0.0 and col.lower() != "#2120ff":
            ext_bad.append((n, L, col, "zero loss must be fully cold"))
    ctx.check("heat.extremes", not ext_bad, dict(det0, bad=ext_bad[:5], kind=hk))
    if "Scale" in nodes:
        lab = nodes["Scale"][1].get("label", "")
        core = lab.strip("{}")
        first = core.split("|")[0]
        val = parse_si(first)
        ok = val is not None and abs(val - mx) <= 5e-3 * abs(mx) + 1e-30 and core.rstrip().endswith("0W")
        ctx.check("heat.legend", ok, dict(det0, legend=lab, max_loss=mx, kind=hk))


def cm_group(spec, n):
    for c in spec["comps"]:
        if c["name"] == n:
            return c.get("group", "")
    return ""
