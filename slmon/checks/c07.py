"""C07 - Subsystem, System total, System average and 24 h energy rows are exact aggregates; every component
is attributed to the source that actually powers it."""

import math

from .. import gen as G, harness as H, model as M, spec as S
from . import _rows

PROP = "C07"
LEVEL = "exploration"
ANCHORS = ["_find_domain", "_calc_energy", "System.solve"]  # functions whose reached lines are reported in the evidence
RULE = (
    "cases = random multi-source SystemSpecs (1-4 sources, PMux joining them with probability 0.6, phases with "
    "probability 0.5) each built in several construction orders (sources first, reverse sources, depth-first, "
    "breadth-first, random) and solved with energy=True. The oracle recomputes from the component rows and the "
    "spec: Domain = source that powers the row (via the mux's selected input); Subsystem X = source X's Vin, "
    "Iout, Power and the sum of losses of exactly X's components; System total = sum of source powers / all "
    "losses, efficiency 100*(P-L)/P <= 100; System average = duration-weighted mean of per-phase totals; energy "
    "= P*24*d_p/sum(d) (P*24 without phases) and per-phase energies add up to the average's. Non-trivial = >=2 "
    "sources and >=6 components; distinct = (canonical spec hash, construction order)"
)
REQUIRED = ["agg.domain", "agg.subsystem_source", "agg.subsystem_loss", "agg.total", "agg.total_eff",
            "agg.average", "agg.energy_row", "agg.energy_sum", "agg.order_independent"]
SIZES = {"quick": 110, "thorough": 700}
ASSUMPTIONS = ["sums are compared to 1e-12 relative (pure re-addition of reported cells)",
               "rows below a mux without live input carry no loss; their Domain label is not judged"]
ORDERS = ["sources_first", "reverse_sources", "dfs", "bfs", "random"]


def gen(rng, i, tier):
    big = tier == "thorough"
    if i % 4 == 1:
        # mux-centred layouts shared with C05: inputs that sit BELOW other elements (a converter / regulator / switch
        # that sleeps in some phase while its source stays live), several sources, mostly with phases - the domain of
        # the mux subtree is the source of the input that actually feeds it in that phase
        from . import c05

        lay = c05.layout(rng, rng.choice([2, 3, 4]))
        lay["phases"] = rng.random() < 0.85
        pat = [rng.choice([0, 1]) for _ in range(lay["k"])]
        if lay["phases"] and all(pat):
            pat[0] = 0
        if (i // 4) % 3 == 0:
            # fixed share: the first input is a starved regulator ("on" at exactly 0 V), a later input is live
            lay["starve_first"] = True
            pat[0], pat[1] = 1, 1
        spec = c05.realise(lay, pat)
        return {"spec": spec, "orders": ["as_generated"], "oseed": rng.randrange(1 << 30), "tol": 1e-6, "ta": 25.0,
                "history": ["fresh", "solve_then_rename_sources", "solve_then_phase_conf", "analysed_while_built", "solve_then_rename"][(i // 4) % 5],
                "hseed": rng.randrange(1 << 30)}
    multi = rng.random() < 0.8
    spec = G.gen_system(
        rng, n_comp=(4, 26 if big else 14), n_src=(2, 4) if multi else (1, 1), mux=0.6 if multi else 0.2,
        polarity=rng.choice(["pos", "pos", "any"]), regime="benign", tables=rng.choice([0.0, 0.3]), phases=0.5,
        max_depth=rng.choice([3, 5]), dead=rng.choice([0.0, 0.3]), phase_conf=0.5, mux_inputs=(2, 4),
        groups=0.3, rails=rng.choice([0.0, 0.4]),
    )
    orders = ["as_generated"] + rng.sample(ORDERS, 3)
    return {"spec": spec, "orders": orders, "oseed": rng.randrange(1 << 30), "tol": 1e-6, "ta": 25.0,
            "history": rng.choice(_rows.HISTORIES), "hseed": rng.randrange(1 << 30)}


def _c(name, kind, args, parents):
    return {"name": name, "kind": kind, "args": args, "parents": parents, "group": "", "rail": "", "limits": None,
            "phase": None}


def directed():
    # mux inputs [S2, S1]; a sibling branch of S1 is emitted after the mux subtree
    comps = [_c("S1", "Source", {"vo": 5.0}, []), _c("S2", "Source", {"vo": 12.0}, []),
             _c("A", "RLoss", {"rs": 1.0}, ["S1"]), _c("AL", "ILoad", {"ii": 0.1}, ["A"]),
             _c("M", "PMux", {"rs": 0.1}, ["S2", "S1"]), _c("ML", "ILoad", {"ii": 0.2}, ["M"]),
             _c("B", "RLoss", {"rs": 2.0}, ["S1"]), _c("BL", "ILoad", {"ii": 0.3}, ["B"])]
    spec = {"name": "dom", "comps": comps, "phases": {}}
    return [{"spec": spec, "orders": ["as_generated"] + ORDERS, "oseed": 3, "tol": 1e-6, "ta": 25.0}]


def run(ctx, case):
    import random

    spec0 = case["spec"]
    results = {}
    for how in case["orders"]:
        spec = spec0 if how == "as_generated" else S.topo_orders(spec0, random.Random(case["oseed"]), how)
        if how == "as_generated" and case.get("history", "fresh") != "fresh":
            spec, sysobj = _rows.build_with_history(ctx, spec, case["history"], case.get("hseed", 0))
            spec0 = spec  # the other construction orders are permutations of the EFFECTIVE structure
        else:
            st, sysobj = H.try_build(spec)
            if st != "ok":
                raise RuntimeError("spec rejected: %s" % H.exc_sig(sysobj))
        st, df = H.solve(sysobj, energy=True)
        ctx.count("outcome", "returned" if st == "ok" else type(df).__name__)
        if st != "ok":
            results[how] = None
            continue
        probe = H.Collect()
        info, _, _ = M.check_table(probe, spec, df, M.Tol(), 25.0)
        if any(i.get("polarity_lost") or i.get("skipped") for i in info.values()):
            ctx.count("outcome", "unphysical table (skipped, C03)")
            results[how] = None
            continue
        results[how] = df
        judge(ctx, spec, df, how)
    # the same structure in another construction order gives the same per-component values
    base = results.get("as_generated")
    if base is not None:
        kb = H.keyed_rows(base)
        for how, df in results.items():
            if how == "as_generated" or df is None:
                continue
            ko = H.keyed_rows(df)
            bad = []
            if set(kb) != set(ko):
                bad.append(("row keys differ", sorted(map(str, set(kb) ^ set(ko)))[:6]))
            else:
                for key, x in kb.items():
                    y = ko[key]
                    for col in x:
                        if col in ("Domain",) and x[col] != y.get(col):
                            bad.append((key, col, x[col], y.get(col)))
                        elif M.num(x[col]) and M.num(y.get(col)):
                            if not H.cell_equal(x[col], y[col], rel=1e-9) and abs(x[col] - y[col]) > 1e-7:
                                bad.append((key, col, x[col], y[col]))
            ctx.check("agg.order_independent", not bad, {"order": how, "differences": bad[:6]})
    sh = _rows.observe(ctx, spec0)
    nsrc = sum(1 for c in spec0["comps"] if c["kind"] == "Source")
    if nsrc >= 2 and len(spec0["comps"]) >= 6:
        for how in case["orders"]:
            ctx.nontrivial([S.canonical(spec0), how])
    ctx.sample({"spec": _rows.short(spec0), "orders": case["orders"]})


def judge(ctx, spec, df, how):
    order, per, avg = M.split_table(df)
    phases = spec.get("phases") or {}
    nsrc = sum(1 for c in spec["comps"] if c["kind"] == "Source")
    C = M.COLS
    det0 = {"order": how}
    ttot = math.fsum(phases.values()) if phases else None
    tot_by_phase = {}
    for ph in order:
        rows = per[ph]["rows"]
        if set(rows) != set(c["name"] for c in spec["comps"]):
            ctx.check("agg.rows", False, dict(det0, phase=ph, why="component rows differ from the spec"))
            return
        sup, sel = M.suppliers(spec, rows)
        dom = M.true_domain(spec, sup)
        srcs = [c["name"] for c in spec["comps"] if c["kind"] == "Source"]
        # --- domain attribution ---
        if nsrc > 1:
            for c in spec["comps"]:
                n = c["name"]
                if dom[n] is None:
                    continue
                ctx.check("agg.domain", rows[n].get("Domain") == dom[n],
                          dict(det0, phase=ph, row=n, kind=c["kind"], reported=rows[n].get("Domain"), expected=dom[n],
                               mux_inputs=[x["parents"] for x in spec["comps"] if x["kind"] == "PMux"],
                               emitted_order=per[ph]["order"]))
            # --- subsystem rows ---
            subs = per[ph]["subs"]
            ctx.check("agg.subsystem_set", set(subs) == set(srcs), dict(det0, phase=ph, reported=sorted(subs), expected=srcs))
            for sname in srcs:
                if sname not in subs:
                    continue
                sr, r = subs[sname], rows[sname]
                ok = sr[C["vin"]] == r[C["vin"]] and sr[C["iout"]] == r[C["iout"]] and sr[C["p"]] == r[C["p"]]
                ctx.check("agg.subsystem_source", ok, dict(det0, phase=ph, source=sname, subsystem=M._rowvals(sr), source_row=M._rowvals(r)))
                exp = math.fsum(rows[n][C["l"]] for n in rows if dom[n] == sname)
                members = [n for n in rows if dom[n] == sname]
                ctx.check("agg.subsystem_loss", _rel(sr[C["l"]], exp),
                          dict(det0, phase=ph, source=sname, reported=sr[C["l"]], expected=exp, members=members,
                               reported_domains={n: rows[n].get("Domain") for n in rows}))
                P = sr[C["p"]]
                if M.num(P) and P > 0:
                    e = 100.0 * abs((P - sr[C["l"]]) / P)
                    ctx.check("agg.subsystem_eff", abs(sr[C["eff"]] - e) <= 1e-7, dict(det0, phase=ph, source=sname, reported=sr[C["eff"]], expected=e))
                _energy(ctx, det0, ph, "Subsystem " + sname, sr, phases, ttot)
        # --- system total ---
        tot = per[ph]["total"]
        expP = math.fsum(rows[s][C["p"]] for s in srcs)
        expL = math.fsum(rows[n][C["l"]] for n in rows)
        ctx.check("agg.total", tot is not None and _rel(tot[C["p"]], expP) and _rel(tot[C["l"]], expL),
                  dict(det0, phase=ph, reported=M._rowvals(tot) if tot else None, expected_power=expP, expected_loss=expL))
        if tot is not None:
            if expP > 0:
                e = 100.0 * (expP - expL) / expP
                ctx.check("agg.total_eff", abs(tot[C["eff"]] - abs(e)) <= 1e-7 and tot[C["eff"]] <= 100.0 + 1e-6,
                          dict(det0, phase=ph, reported=tot[C["eff"]], expected=e))
            tot_by_phase[ph] = tot
            _energy(ctx, det0, ph, "System total", tot, phases, ttot)
        for n, r in rows.items():
            _energy(ctx, det0, ph, n, r, phases, ttot)
        ctx.count("sources", nsrc)
    # --- system average ---
    if phases and len(order) > 1:
        ctx.check("agg.average_present", avg is not None, det0)
        if avg is not None and len(tot_by_phase) == len(phases):
            aP = math.fsum(tot_by_phase[p][C["p"]] * d for p, d in phases.items()) / ttot
            aL = math.fsum(tot_by_phase[p][C["l"]] * d for p, d in phases.items()) / ttot
            ctx.check("agg.average", _rel(avg[C["p"]], aP, 1e-11) and _rel(avg[C["l"]], aL, 1e-11),
                      dict(det0, reported=[avg[C["p"]], avg[C["l"]]], expected=[aP, aL], durations=phases))
            if C["en"] in avg:
                esum = math.fsum(tot_by_phase[p][C["en"]] for p in phases)
                ctx.check("agg.energy_sum", _rel(avg[C["en"]], esum, 1e-10) and _rel(avg[C["en"]], aP * 24.0, 1e-10),
                          dict(det0, average_energy=avg[C["en"]], sum_of_phase_energies=esum, expected=aP * 24.0))
    elif not phases:
        ctx.ev("agg.energy_sum", 0)


def _energy(ctx, det0, ph, name, r, phases, ttot):
    C = M.COLS
    if C["en"] not in r or not M.num(r.get(C["p"])) or not M.num(r.get(C["en"])):
        return
    P = r[C["p"]]
    exp = P * 24.0 if not phases else P * 24.0 * phases[ph] / ttot
    ctx.check("agg.energy_row", _rel(r[C["en"]], exp, 1e-11), dict(det0, phase=ph, row=name, power=P, reported=r[C["en"]], expected=exp))


def _rel(a, b, rel=1e-12):
    return M.num(a) and M.num(b) and abs(a - b) <= rel * max(abs(a), abs(b)) + 1e-300
