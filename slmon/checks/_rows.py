"""Shared driver for the checks that judge solve() tables row by row (C01, C02, C04, C06)."""

from .. import harness as H, model as M, spec as S


def observe(ctx, spec):
    kinds = set()
    for c in spec["comps"]:
        kinds.add(c["kind"])
        ctx.see("kinds", c["kind"])
        for z in ("eff", "vdrop", "ig"):
            if z in c["args"]:
                ctx.see("param_forms", "%s.%s:%s" % (c["kind"], z, M.param_form(c["args"][z], z)))
    sh = S.shape_sig(spec)
    ctx.see("shape", "n%d/d%d/f%d/s%d" % (sh["n"] // 5 * 5, sh["depth"], min(sh["fanout"], 8), sh["sources"]))
    ctx.see("polarity", spec.get("_meta", {}).get("polarity", "?"))
    ctx.count("phases", len(spec.get("phases") or {}))
    return kinds


def short(spec):
    return {"comps": [{k: c[k] for k in ("name", "kind", "args", "parents", "phase") if c.get(k) not in (None, "")}
                      for c in spec["comps"]][:12], "phases": spec.get("phases")}


def solve_and_judge(ctx, case, accept, skip_if_polarity_lost=True, solve_kw=None):
    """Build, solve, judge.  -> (df, info) or (None, None) when solve raised / table outside the quantifier."""
    spec = case["spec"]
    tol = M.Tol(case["tol"], case["tol"])
    st, sysobj = H.try_build(spec)
    if st != "ok":
        raise RuntimeError("generator produced a spec the public API rejects: %s" % H.exc_sig(sysobj))
    kw = dict(vtol=case["tol"], itol=case["tol"], ta=case.get("ta", 25.0))
    kw.update(solve_kw or {})
    kw.update(case.get("kw") or {})
    phases = list((spec.get("phases") or {}).keys())
    if kw.get("phase") == "<some>":
        if phases:
            kw["phase"] = phases[case.get("phase_pick", 0) % len(phases)]
        else:
            kw.pop("phase")
    # earlier analyses on the SAME object (whatever they leave behind must not influence the judged call)
    with H.quiet():
        for pre in case.get("pre") or []:
            if pre == "solve":
                H.solve(sysobj)
            elif pre == "solve_phase" and phases:
                H.solve(sysobj, phase=phases[-1])
            elif pre == "rail_rep":
                H.call(sysobj.rail_rep)
            elif pre == "params":
                H.call(sysobj.params)
            elif pre == "solve_loose":
                H.solve(sysobj, vtol=1e-2, itol=1e-2, maxiter=3)
            ctx.count("pre_calls", pre)
        st, df = H.solve(sysobj, **kw)
    for k_ in ("energy", "tags", "quiet", "phase"):
        if k_ in kw:
            ctx.count("solve_kw", k_)
    ctx.count("outcome", "returned" if st == "ok" else type(df).__name__)
    if st != "ok":
        return None, None, sysobj
    probe = H.Collect()
    only = kw.get("phase") or None
    info, per, _ = M.check_table(probe, spec, df, tol, kw["ta"], only_phase=only)
    if skip_if_polarity_lost and any(i.get("polarity_lost") for i in info.values()):
        ctx.count("outcome", "polarity_lost(skipped, C03)")
        return None, None, sysobj
    em = H.Emit(ctx, accept=accept)
    M.check_table(em, spec, df, tol, kw["ta"], only_phase=only)
    return df, info, sysobj


def random_call_context(rng):
    """Random documented solve() arguments and earlier analysis calls on the same object."""
    kw = {}
    if rng.random() < 0.25:
        kw["energy"] = True
    if rng.random() < 0.2:
        kw["tags"] = {"rev": "B", "n": 3}
    if rng.random() < 0.15:
        kw["quiet"] = False
    if rng.random() < 0.2:
        kw["phase"] = "<some>"
    pre = [rng.choice(["solve", "solve_phase", "rail_rep", "params", "solve_loose"]) for _ in range(rng.choice([0, 0, 1, 2]))]
    return {"kw": kw, "pre": pre, "phase_pick": rng.randrange(8)}
