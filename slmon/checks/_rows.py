"""Shared driver for the checks that judge solve() tables row by row (C01, C02, C04, C06)."""

from .. import harness as H, model as M, spec as S


def observe(ctx, spec):
    kinds = set()
    for c in spec["comps"]:
        kinds.add(c["kind"])
        ctx.see("kinds", c["kind"])
        for z in ("eff", "vdrop", "ig"):
            if z in c["args"]:
                ctx.see("param_forms", "%s.%s:%s" % (c["kind"], z, M.param_form(c["args"][z], z)))
    sh = S.shape_sig(spec)
    ctx.see("shape", "n%d/d%d/f%d/s%d" % (sh["n"] // 5 * 5, sh["depth"], min(sh["fanout"], 8), sh["sources"]))
    ctx.see("polarity", spec.get("_meta", {}).get("polarity", "?"))
    ctx.count("phases", len(spec.get("phases") or {}))
    return kinds


def short(spec):
    return {"comps": [{k: c[k] for k in ("name", "kind", "args", "parents", "phase") if c.get(k) not in (None, "")}
                      for c in spec["comps"]][:12], "phases": spec.get("phases")}


def solve_and_judge(ctx, case, accept, skip_if_polarity_lost=True, solve_kw=None):
    """Build, solve, judge.  -> (df, info) or (None, None) when solve raised / table outside the quantifier."""
    spec = case["spec"]
    tol = M.Tol(case["tol"], case["tol"])
    st, sysobj = H.try_build(spec)
    if st != "ok":
        raise RuntimeError("generator produced a spec the public API rejects: %s" % H.exc_sig(sysobj))
    kw = dict(vtol=case["tol"], itol=case["tol"], ta=case.get("ta", 25.0))
    kw.update(solve_kw or {})
    st, df = H.solve(sysobj, **kw)
    ctx.count("outcome", "returned" if st == "ok" else type(df).__name__)
    if st != "ok":
        return None, None, sysobj
    probe = H.Collect()
    info, per, _ = M.check_table(probe, spec, df, tol, kw["ta"])
    if skip_if_polarity_lost and any(i.get("polarity_lost") for i in info.values()):
        ctx.count("outcome", "polarity_lost(skipped, C03)")
        return None, None, sysobj
    em = H.Emit(ctx, accept=accept)
    M.check_table(em, spec, df, tol, kw["ta"])
    return df, info, sysobj
