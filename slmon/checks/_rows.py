"""Shared driver for the checks that judge solve() tables row by row (C01, C02, C04, C06)."""

from .. import gen as G, harness as H, model as M, spec as S


def observe(ctx, spec):
    kinds = set()
    for c in spec["comps"]:
        kinds.add(c["kind"])
        ctx.see("kinds", c["kind"])
        for z in ("eff", "vdrop", "ig"):
            if z in c["args"]:
                ctx.see("param_forms", "%s.%s:%s" % (c["kind"], z, M.param_form(c["args"][z], z)))
    sh = S.shape_sig(spec)
    ctx.see("shape", "n%d/d%d/f%d/s%d" % (sh["n"] // 5 * 5, sh["depth"], min(sh["fanout"], 8), sh["sources"]))
    ctx.see("polarity", spec.get("_meta", {}).get("polarity", "?"))
    nn = sum(1 for c in spec["comps"] if c["kind"] != "Source")
    if nn <= 1:
        ctx.count("degenerate_systems", "sources only" if nn == 0 else "sources and one component")
    if any(isinstance(v, (int, float)) and not isinstance(v, bool) and v == 0 for c in spec["comps"] for k_, v in c["args"].items() if k_ != "vo"):
        ctx.count("degenerate_systems", "a parameter given as exactly zero")
    ctx.count("phases", len(spec.get("phases") or {}))
    return kinds


def short(spec):
    return {"comps": [{k: c[k] for k in ("name", "kind", "args", "parents", "phase") if c.get(k) not in (None, "")}
                      for c in spec["comps"]][:12], "phases": spec.get("phases")}


def solve_and_judge(ctx, case, accept, skip_if_polarity_lost=True, solve_kw=None):
    """Build, solve, judge.  -> (df, info) or (None, None) when solve raised / table outside the quantifier."""
    import copy

    if "_orig_spec" not in case:
        case["_orig_spec"] = copy.deepcopy(case["spec"])
    tol = M.Tol(case["tol"], case["tol"])
    kw = dict(vtol=case["tol"], itol=case["tol"], ta=case.get("ta", 25.0))
    kw.update(solve_kw or {})
    kw.update(case.get("kw") or {})
    phases = list((case["_orig_spec"].get("phases") or {}).keys())
    if kw.get("phase") == "<some>":
        if phases:
            kw["phase"] = phases[case.get("phase_pick", 0) % len(phases)]
        else:
            kw.pop("phase")
    spec, sysobj = build_with_history(ctx, copy.deepcopy(case["_orig_spec"]), case.get("history", "fresh"), case.get("hseed", 0), kw=kw)
    case["spec"] = spec  # the structure the judged table must correspond to
    # earlier analyses on the SAME object (whatever they leave behind must not influence the judged call)
    with H.quiet():
        for pre in case.get("pre") or []:
            if pre == "solve":
                H.solve(sysobj)
            elif pre == "solve_phase" and phases:
                H.solve(sysobj, phase=phases[-1])
            elif pre == "rail_rep":
                H.call(sysobj.rail_rep)
            elif pre == "params":
                H.call(sysobj.params)
            elif pre == "solve_loose":
                H.solve(sysobj, vtol=1e-2, itol=1e-2, maxiter=3)
            elif pre == "solve_other_args":  # same report, other ambient temperature / energy / tags
                H.solve(sysobj, ta=kw.get("ta", 25.0) + 41.5, energy=not kw.get("energy", False), tags={"pre": 1})
            elif pre == "sibling_system":
                _sibling(sysobj, spec, case.get("hseed", 0))
            elif pre == "decoy_components":
                decoys(spec, case.get("hseed", 0))
            elif pre == "phases":
                H.call(sysobj.phases)
            elif pre == "save":
                with H.tmpdir() as _d:
                    import os as _os

                    H.call(sysobj.save, _os.path.join(_d, "pre.json"))
            ctx.count("pre_calls", pre)
        st, df = H.solve(sysobj, **kw)
    for k_ in ("energy", "tags", "quiet", "phase"):
        if k_ in kw:
            ctx.count("solve_kw", k_)
    ctx.count("outcome", "returned" if st == "ok" else type(df).__name__)
    if st != "ok":
        return None, None, sysobj
    probe = H.Collect()
    only = kw.get("phase") or None
    info, per, _ = M.check_table(probe, spec, df, tol, kw["ta"], only_phase=only)
    if skip_if_polarity_lost and any(i.get("polarity_lost") for i in info.values()):
        ctx.count("outcome", "polarity_lost(skipped, C03)")
        return None, None, sysobj
    em = H.Emit(ctx, accept=accept)
    M.check_table(em, spec, df, tol, kw["ta"], only_phase=only)
    return df, info, sysobj


def random_call_context(rng):
    """Random documented solve() arguments and earlier analysis calls on the same object."""
    kw = {}
    if rng.random() < 0.25:
        kw["energy"] = True
    if rng.random() < 0.2:
        kw["tags"] = {"rev": "B", "n": 3}
    if rng.random() < 0.15:
        kw["quiet"] = False
    if rng.random() < 0.2:
        kw["phase"] = "<some>"
    pre = [rng.choice(["solve", "solve_phase", "rail_rep", "params", "solve_loose", "solve_other_args", "solve_other_args", "phases", "save",
                       "sibling_system", "decoy_components", "decoy_components"])
           for _ in range(rng.choice([0, 0, 1, 2]))]
    return {"kw": kw, "pre": pre, "phase_pick": rng.randrange(8), "history": rng.choice(HISTORIES), "hseed": rng.randrange(1 << 30)}


def decoys(spec, seed=0):
    """Free-standing components of the same kinds with OTHER parameter values (scaled numbers, reversed lists, scaled
    tables) are constructed - and dropped - right before the judged call: whatever a class (rather than an instance)
    remembers from the latest constructor call must not reach the components of the system under test."""
    import copy
    import random

    from .. import loader

    ns = loader.load()
    rng = random.Random(seed ^ 0xDEC0)

    def other(v):
        if isinstance(v, bool):
            return v
        if isinstance(v, (int, float)):
            return v * rng.choice([0.37, 1.9, 4.3])
        if isinstance(v, list):
            return [other(x) for x in reversed(v)]
        if isinstance(v, dict):
            d = copy.deepcopy(v)
            for k_, x in d.items():
                if k_ not in ("vi", "io"):
                    d[k_] = [[min(0.99, y * 0.8) if k_ == "eff" else y * 2.5 for y in row] for row in x]
            return d
        return v

    n = 0
    for c in spec["comps"]:
        a = {k_: other(v) for k_, v in c["args"].items()}
        if c["kind"] == "Converter" and isinstance(a.get("eff"), (int, float)):
            a["eff"] = min(0.99, max(0.05, a["eff"]))
        if c["kind"] == "LinReg":
            a.pop("vdrop", None)
        st, _ = H.call(ns.KINDS[c["kind"]], "decoy %s" % c["name"], **a)
        n += st == "ok"
    return n


def _sibling(sysobj, spec, seed, reorder=False):
    """A second System is assembled from the VERY SAME component objects (a user re-using their part definitions),
    configured with other phase durations and other per-component phase configurations, and solved.  Whatever a
    component object or a class remembers from that must not leak into the system under test."""
    import copy
    import random

    from .. import loader

    ns = loader.load()
    rng = random.Random(seed ^ 0x51B)
    objs = {sysobj._g[i]._params["name"]: sysobj._g[i] for i in sysobj._g.node_indices()}
    comps = spec["comps"]
    if any(c["name"] not in objs for c in comps):
        return
    if reorder:  # the same parts assembled in another (valid) order: other node indices for the same objects
        comps = S.topo_orders(spec, rng, rng.choice(["random", "dfs", "reverse_sources"]))["comps"]
    first = comps[0]
    st, sib = H.call(ns.System, "sibling", objs[first["name"]], group=first.get("group", ""), rail=first.get("rail", ""))
    if st != "ok":
        return
    for c in comps[1:]:
        if c["kind"] == "Source" and not c.get("parents"):
            st, _ = H.call(sib.add_source, objs[c["name"]], group=c.get("group", ""), rail=c.get("rail", ""))
        else:
            st, _ = H.call(sib.add_comp, S.parent_ref(spec, c), comp=objs[c["name"]], group=c.get("group", ""), rail=c.get("rail", ""))
        if st != "ok":
            return
    names = list((spec.get("phases") or {}).keys()) or ["run", "nap"]
    H.call(sib.set_sys_phases, {p_: G.sig(rng.uniform(1.0, 500.0)) for p_ in names})
    for c in comps:
        k_ = c["kind"]
        if k_ in ("RLoss", "VLoss", "Rectifier") or rng.random() < 0.4:
            continue
        if k_ in S.LOADS:
            key = {"PLoad": "pwr", "ILoad": "ii", "RLoad": "rs"}[k_]
            conf = {p_: G.sig(abs(c["args"][key]) * rng.choice([0.4, 1.7])) for p_ in names if rng.random() < 0.6}
        else:
            on = set(c["phase"]) if c.get("phase") else set(names)
            conf = [p_ for p_ in names if p_ not in on] or [p_ for p_ in names if rng.random() < 0.5] or names[:1]
        H.call(sib.set_comp_phases, c["name"], conf)
    H.solve(sib, energy=True)
    H.call(sib.rail_rep)


def repo_tests_under_monitor(ctx, accept):
    """Extra workload: the repository's own 91 tests, every solve() table judged by the row monitor with the
    structure taken from the live graph (slmon/pytest_rows.py).  Runs once per check run (shard 0)."""
    import json
    import os
    import subprocess
    import sys
    import tempfile

    from .. import core, loader

    tests = os.path.join(loader.REPO, "tests")
    if ctx.shard != 0 or not os.path.isdir(tests):
        ctx.count("repo_tests", "not run (no tests directory next to the sources)" if ctx.shard == 0 else "other shard")
        return
    fd, out = tempfile.mkstemp(prefix="slmon-pyrows-", suffix=".json")
    os.close(fd)
    env = dict(os.environ, SLMON_PYTEST_OUT=out, PYTHONPATH=core.VERIF + os.pathsep + loader.SRC, VERIF_REACH="0")
    try:
        p = subprocess.run([sys.executable, "-m", "pytest", "-q", "-p", "no:cacheprovider", "-p", "slmon.pytest_rows",
                            "--timeout=900", "--benchmark-disable", "tests"], cwd=loader.REPO, env=env,
                           capture_output=True, text=True, timeout=1800)
        with open(out) as f:
            res = json.load(f)
    except Exception as e:  # noqa: BLE001
        ctx.inconc("repository tests under the monitor could not be run: %r" % (e,))
        return
    finally:
        if os.path.exists(out):
            os.unlink(out)
    ctx.count("repo_tests", "tables judged", res.get("tables", 0))
    ctx.count("repo_tests", "pytest exit status %s" % res.get("exitstatus"))
    for e in res.get("errors", []):
        ctx.inconc("monitor error inside repository test: " + e)
    if not res.get("tables"):
        ctx.inconc("watchdog: the repository's tests ran under the monitor but no solve() table was observed")
    for cl, n in res.get("clauses", {}).items():
        if any(cl.startswith(a) for a in accept):
            ctx.ev(cl, n)
            ctx.ev("repo_tests.rows_judged", n)
    for v in res.get("violations", []):
        if any(v["clause"].startswith(a) for a in accept):
            ctx.violate(v["clause"], v["detail"], v["case"])


HISTORIES = ["fresh", "fresh", "fresh", "solve_then_move_leaf", "solve_then_phase_conf", "solve_then_change_comp", "index_gaps",
             "identity_change_comp", "solve_then_retune", "solve_then_retune", "solve_then_phase_edit", "solve_then_phase_edit",
             "solve_then_phase_edit", "solve_then_swap_leaves", "solve_then_rename", "analysed_while_built", "analysed_while_built",
             "scratch_first_source", "scratch_first_source", "solve_then_rename"]


def build_with_history(ctx, spec, mode, hseed, kw=None, prefer=None):
    """Build the real System for `spec`, optionally through a history in which the system is ANALYSED, then
    edited / re-configured, and only then judged.  Returns (effective spec, System)."""
    import copy
    import random

    from .. import hist, loader

    ns = loader.load()
    rng = random.Random(hseed)
    cm = S.comp_map(spec)

    def fresh(sp):
        st, so = H.try_build(sp)
        if st != "ok":
            raise RuntimeError("generator produced a spec the public API rejects: %s" % H.exc_sig(so))
        return so

    def analyse(so):
        with H.quiet():
            H.call(getattr(so, rng.choice(["solve", "solve", "phases", "rail_rep", "params"])))
            if spec.get("phases") and rng.random() < 0.4:
                H.call(so.phases)  # (a report that reads the phase configuration without solving)
            if prefer:  # the report the calling check is about to judge (method name or callable taking the System)
                H.call(prefer, so) if callable(prefer) else H.call(getattr(so, prefer))

    def pref(so):
        if prefer:
            with H.quiet():
                H.call(prefer, so) if callable(prefer) else H.call(getattr(so, prefer))

    def maybe_copy(so):
        # the analysed system is DEEP-COPIED and the edits are made on the copy (a what-if variant): the copy is a
        # System in its own right, nothing in it may keep pointing into the original
        if rng.random() < 0.3:
            ctx.count("history", "edits made on a copy.deepcopy() of the analysed system")
            return copy.deepcopy(so)
        return so

    if mode == "solve_then_move_leaf":
        leaves = [c for c in spec["comps"] if c["kind"] in S.LOADS]
        rng.shuffle(leaves)
        for lf in leaves:
            wrong = [c["name"] for c in spec["comps"] if c["kind"] not in S.LOADS and c["name"] not in lf["parents"]
                     and spec["comps"].index(c) < spec["comps"].index(lf)]
            if not wrong:
                continue
            detour = copy.deepcopy(spec)
            d = S.comp_map(detour)[lf["name"]]
            d["parents"], d["via_rail"] = [rng.choice(wrong)], [False]
            so = fresh(detour)
            analyse(so)
            so = maybe_copy(so)
            so.del_comp(lf["name"])
            S.add_one(so, spec, lf, ns)
            if lf.get("phase") is not None:
                so.set_comp_phases(lf["name"], copy.deepcopy(lf["phase"]))
            ctx.count("history", mode)
            return spec, so
    elif mode == "solve_then_phase_conf" and spec.get("phases") and any(c.get("phase") is not None for c in spec["comps"]):
        bare = copy.deepcopy(spec)
        for c in bare["comps"]:
            c["phase"] = None
        so = fresh(bare)
        analyse(so)
        for c in spec["comps"]:
            if c.get("phase") is not None:
                so.set_comp_phases(c["name"], copy.deepcopy(c["phase"]))
        ctx.count("history", mode)
        return spec, so
    elif mode == "solve_then_change_comp" and spec.get("phases"):
        conf = [c for c in spec["comps"] if c.get("phase") and c["kind"] != "PMux"]
        if conf:
            so = fresh(spec)
            analyse(so)
            eff = copy.deepcopy(spec)
            em = S.comp_map(eff)
            for c in conf[: rng.randint(1, 2)]:
                # replacing a component (here: by an identical one) resets its phase configuration
                so.change_comp(c["name"], comp=S.make_comp(ns, c), group=c.get("group", ""), rail=c.get("rail", ""))
                em[c["name"]]["phase"] = None
            ctx.count("history", mode)
            return eff, so
    if mode == "solve_then_phase_edit" and spec.get("phases"):
        # the system is first configured with OTHER phase configurations (components off where they will be on and
        # the other way round, loads with other per-phase values) and other phase durations, solved with the
        # arguments of the judged call, and only then given its real configuration - no structural edit in between
        names = list(spec["phases"])
        detour = copy.deepcopy(spec)
        changed = []
        for c in detour["comps"]:
            k_ = c["kind"]
            if k_ in ("RLoss", "VLoss", "Rectifier") or rng.random() < 0.4:
                continue
            final = c.get("phase")
            if k_ in S.LOADS:
                key = {"PLoad": "pwr", "ILoad": "ii", "RLoad": "rs"}[k_]
                base = abs(c["args"][key])
                conf = {p_: G.sig(base * rng.choice([0.3, 0.7, 1.6])) for p_ in names if rng.random() < 0.6}
            else:
                on = set(final) if final else set(names)
                conf = [p_ for p_ in names if p_ not in on] or [p_ for p_ in names if rng.random() < 0.5] or names[:1]
            if conf == final or (not conf and not final):
                continue
            c["phase"] = conf
            changed.append(c["name"])
        retime = rng.random() < 0.5
        if changed or retime:
            so = fresh(detour)
            P = {p_: G.sig(float(v) * rng.choice([0.25, 3.0]) + 1.0) for p_, v in spec["phases"].items()}
            if retime:
                so.set_sys_phases(P)  # (the caller's own dict object; edited in place and handed over again below)
            with H.quiet():
                H.solve(so, **dict(kw or {}, energy=True))
                if rng.random() < 0.5:
                    H.solve(so, **(kw or {}))
            pref(so)
            so = maybe_copy(so)
            eff = copy.deepcopy(spec)
            em = S.comp_map(eff)
            for n in changed:
                final = cm[n].get("phase")
                if final is None:
                    final = {} if cm[n]["kind"] in S.LOADS else []  # an empty configuration = "no configuration"
                    em[n]["phase"] = None
                so.set_comp_phases(n, copy.deepcopy(final))
            if retime:
                for p_ in list(P):
                    P[p_] = spec["phases"][p_]
                so.set_sys_phases(P)
            ctx.count("history", mode)
            return eff, so
    if mode == "analysed_while_built":
        # the system is assembled call by call with reports requested in between (a designer inspecting the tree as it
        # grows): every later call must see the structure as it is then, not as it was at the last report
        first = spec["comps"][0]
        so = ns.System(spec.get("name", "sys"), S.make_comp(ns, first), group=first.get("group", ""), rail=first.get("rail", ""))
        copied = False
        for c in spec["comps"][1:]:
            if rng.random() < 0.45:
                analyse(so)
                if not copied and rng.random() < 0.5:
                    so2 = maybe_copy(so)  # (the half-built, analysed system is copied; the build continues on the copy)
                    copied = so2 is not so
                    so = so2
            S.add_one(so, spec, c, ns)
        if rng.random() < 0.5:
            analyse(so)
        S.apply_phase_conf(so, spec)
        ctx.count("history", mode)
        return spec, so
    if mode == "solve_then_swap_leaves":
        # two or three leaves are deleted and added again in the order of deletion: rustworkx hands out the freed node
        # indices last-freed-first, so the components come back on EACH OTHER'S indices (same names, same structure)
        leaves = [c for c in spec["comps"] if c["kind"] in S.LOADS]
        if len(leaves) >= 2:
            so = fresh(spec)
            with H.quiet():
                H.solve(so, **(kw or {}))
            pref(so)
            rng.shuffle(leaves)
            pick = sorted(leaves[: rng.choice([2, 2, 3])], key=lambda c: spec["comps"].index(c))
            for lf in pick:
                so.del_comp(lf["name"])
            for lf in pick:
                S.add_one(so, spec, lf, ns)
                if lf.get("phase") is not None:
                    so.set_comp_phases(lf["name"], copy.deepcopy(lf["phase"]))
            ctx.count("history", mode)
            return spec, so
    all_sources = mode == "solve_then_rename_sources"
    if all_sources:
        mode = "solve_then_rename"
    if mode == "solve_then_rename":
        # one or two components (sources first) carry a temporary name while the system is analysed and get their real
        # name through change_comp afterwards (same structure, same indices, another name)
        cands = [c for c in spec["comps"] if c["kind"] == "Source"] + [c for c in spec["comps"] if c["kind"] not in ("Source", "PMux")]
        srcs_ = [c for c in cands if c["kind"] == "Source"]
        if all_sources or (len(srcs_) >= 2 and rng.random() < 0.45):
            # every source (whichever one a mux ends up running from) is renamed after the analysis
            pick = list(srcs_)
        else:
            pick = [rng.choice(srcs_)] if rng.random() < 0.6 else []
        rest = [c for c in cands if c not in pick]
        rng.shuffle(rest)
        pick += rest[: rng.choice([0, 1])]
        if pick:
            detour = copy.deepcopy(spec)
            ren = {c["name"]: "~n_" + c["name"] for c in pick}
            for c in detour["comps"]:
                c["parents"] = [ren.get(p_, p_) for p_ in c["parents"]]
                if c["name"] in ren:
                    c["name"] = ren[c["name"]]
                    c["rail"] = ""  # (the rail name arrives with the real name)
                    c["via_rail_child"] = True
            for c in detour["comps"]:
                # children that were connected through the renamed component's rail connect by (temporary) name
                c["via_rail"] = [False if p_ in ren.values() else v_ for p_, v_ in zip(c["parents"], c.get("via_rail") or [False] * len(c["parents"]))]
            so = fresh(detour)
            with H.quiet():
                H.solve(so, **(kw or {}))
                H.call(so.rail_rep)
            pref(so)
            so = maybe_copy(so)
            for c in pick:
                so.change_comp(ren[c["name"]], comp=S.make_comp(ns, c), group=c.get("group", ""), rail=c.get("rail", ""))
                if c.get("phase") is not None:
                    so.set_comp_phases(c["name"], copy.deepcopy(c["phase"]))
            ctx.count("history", mode)
            return spec, so
    rerail = mode == "solve_then_rerail"
    rekind = mode == "solve_then_rekind"
    if rerail or rekind:
        mode = "solve_then_retune"
    if mode == "solve_then_retune":
        # the system is first built with other THERMAL resistances / loss flags (same electrical operating point),
        # solved with the very arguments of the judged call, and then re-tuned in place to the real values
        detour = copy.deepcopy(spec)
        tuned = []
        cands = [c for c in detour["comps"] if c["kind"] != "PMux"]
        rng.shuffle(cands)
        if rerail:
            # only the RAIL name differs until after the analysis: same class, same name, same parameters
            for c in [c for c in cands if c["kind"] not in S.LOADS][: rng.randint(1, 3)]:
                c["rail"] = "" if (c.get("rail") and rng.random() < 0.4) else "~rail " + c["name"]
                tuned.append(c["name"])
            cands = []
        for c in cands[: rng.randint(1, 4)]:
            a = c["args"]
            r_ = rng.random()
            if c["kind"] == "Source":
                continue
            if rekind:
                r_ = 0.0  # every picked component is another KIND (same name) while the system is analysed / drawn
            if r_ < 0.3:
                # ... or a different component altogether (another operating point before the replacement)
                if c["kind"] in S.LOADS:
                    c["kind"], c["args"] = "ILoad", {"ii": 0.01}
                else:
                    c["kind"], c["args"] = "RLoss", {"rs": 0.01}
                c["phase"] = None
            elif c["kind"] in S.LOADS and r_ < 0.65:
                a["loss"] = not a.get("loss", False)
            else:
                a["rt"] = G.sig(abs(a.get("rt", 0.0)) * 4.0 + 7.0)
            if c["kind"] not in S.LOADS and rng.random() < 0.4:
                # ... and another rail name (or none / one where there will be none) until then; children that connect
                # through the rail do so through the name valid at the time
                c["rail"] = "" if (c.get("rail") and rng.random() < 0.3) else "~rail " + c["name"]
            if rng.random() < 0.5:
                # ... and another group label until then (a label, but drawings and the Group column follow it)
                c["group"] = rng.choice([g_ for g_ in ("", "G1", "zz", "Analog") if g_ != c.get("group", "")])
            tuned.append(c["name"])
        if tuned:
            so = fresh(detour)
            with H.quiet():
                H.solve(so, **(kw or {}))
            pref(so)
            so = maybe_copy(so)
            for n in tuned:
                c = cm[n]
                so.change_comp(n, comp=S.make_comp(ns, c), group=c.get("group", ""), rail=c.get("rail", ""))
                if c.get("phase") is not None:
                    so.set_comp_phases(n, copy.deepcopy(c["phase"]))
            ctx.count("history", mode)
            return spec, so
    if mode == "identity_change_comp":
        # some components are replaced by identical ones: same final structure, but the name / rail / group
        # registries (dicts in insertion order) are no longer in node-index order
        so = fresh(spec)
        if rng.random() < 0.5:
            analyse(so)
        cands = [c for c in spec["comps"] if c["kind"] != "PMux"]
        rng.shuffle(cands)
        for c in cands[: rng.randint(1, 3)]:
            so.change_comp(c["name"], comp=S.make_comp(ns, c), group=c.get("group", ""), rail=c.get("rail", ""))
            if c.get("phase") is not None:
                so.set_comp_phases(c["name"], copy.deepcopy(c["phase"]))
        ctx.count("history", mode)
        return spec, so
    if mode == "scratch_first_source":
        # the System is CREATED with a scratch source (node index 0); the real first source joins through add_source.
        # The scratch source is deleted right before a non-source component that is the ONLY child of its parent is
        # added (else before the first non-source): that component then lives at the recycled node index 0 - an index
        # that reads as "nothing" in truth tests such as `if childs:` / any(indices)
        ch = S.children_map(spec)
        first = spec["comps"][0]
        so = ns.System(spec.get("name", "sys"), ns.KINDS["Source"]("~z0", vo=4.2, rs=0.01))
        with_load = rng.random() < 0.5
        if with_load:
            so.add_comp("~z0", comp=ns.KINDS["ILoad"]("~z0l", ii=0.003))
        leaves = [c for c in spec["comps"] if c["kind"] != "Source" and not ch.get(c["name"])]
        if leaves and rng.random() < 0.5:
            # LATE variant: everything but one or two leaves is in place and ANALYSED (with the judged call's arguments)
            # when the scratch source goes; the leaves then refill exactly the freed node slots (same slot count as in
            # the analysis). Preferred leaves: direct children of a source that is off in some phase (phase-restricted
            # or 0 V) - the recycled slot then sits below an initially-off parent
            offsrc = set(c["name"] for c in spec["comps"] if c["kind"] == "Source" and (c.get("phase") is not None or not c["args"].get("vo")))
            leaves.sort(key=lambda c: 0 if (len(c["parents"]) == 1 and c["parents"][0] in offsrc) else 1)
            late = leaves[: 2 if with_load else 1]
            for c in spec["comps"]:
                if c not in late:
                    S.add_one(so, spec, c, ns)
            S.apply_phase_conf(so, {"phases": spec.get("phases"), "phases_first": spec.get("phases_first", True),
                                    "comps": [c for c in spec["comps"] if c not in late]})
            with H.quiet():
                H.solve(so, **(kw or {}))
            pref(so)
            so.del_comp("~z0")
            for c in late:
                S.add_one(so, spec, c, ns)
                if c.get("phase") is not None:
                    so.set_comp_phases(c["name"], copy.deepcopy(c["phase"]))
            ctx.count("history", mode + " (late: freed slots refilled by the last leaves)")
            return spec, so
        rest = [c for c in spec["comps"] if c["kind"] != "Source"]
        only = [c["name"] for c in rest if len(c["parents"]) == 1 and len(ch.get(c["parents"][0], [])) == 1]
        at = (only or [c["name"] for c in rest] or [None])[0]
        for c in spec["comps"]:
            if c["name"] == at:
                if rng.random() < 0.5:
                    analyse(so)
                so.del_comp("~z0")
            S.add_one(so, spec, c, ns)
        if at is None:
            so.del_comp("~z0")
        S.apply_phase_conf(so, spec)
        ctx.count("history", mode)
        return spec, so
    if mode == "index_gaps":
        # scratch components added right after the first source and deleted at the very end: the node indices they
        # occupied stay free, so the solver's vectors (indexed by node index) contain holes
        first = spec["comps"][0]
        so = ns.System(spec.get("name", "sys"), S.make_comp(ns, first), group=first.get("group", ""), rail=first.get("rail", ""))
        k = rng.choice([1, 2, 3])
        for g_ in range(k):
            so.add_comp(first["name"], comp=ns.KINDS["ILoad"]("~gap%d" % g_, ii=0.001))
            if rng.random() < 0.5:
                so.add_comp(first["name"], comp=ns.KINDS["RLoss"]("~gapr%d" % g_, rs=0.1))
        if rng.random() < 0.5:
            # a scratch SOURCE with a child, analysed and deleted at once: the node indices it and its child held are
            # recycled by the (non-source) components that follow
            so.add_source(ns.KINDS["Source"]("~qsrc", vo=3.0))
            so.add_comp("~qsrc", comp=ns.KINDS["ILoad"]("~qsl", ii=0.002))
            with H.quiet():
                H.solve(so)
            so.del_comp("~qsrc")
            ctx.count("history", "scratch source analysed and deleted (indices recycled)")
        for c in spec["comps"][1:]:
            S.add_one(so, spec, c, ns)
        S.apply_phase_conf(so, spec)
        if rng.random() < 0.5:
            analyse(so)
        for n in [x for x in list(so._g.attrs["nodes"]) if x.startswith("~gap")]:
            so.del_comp(n)
        ctx.count("history", mode)
        return spec, so
    ctx.count("history", "fresh")
    return spec, fresh(spec)
