"""C01 - every component row of solve() obeys the documented law of its kind and is consistent with
its neighbours; mirrored supplies give mirrored voltages and identical currents/powers."""

from .. import gen as G, harness as H, model as M, spec as S
from . import _rows

PROP = "C01"
LEVEL = "exploration"
ANCHORS = ["_solv_outp_volt", "_solv_inp_curr", "_child_curr", "_fwd_prop", "_back_prop", "System.solve", "_Interp", "_get_pri_inp"]  # functions whose reached lines are reported in the evidence
RULE = (
    "cases = random SystemSpecs (1-4 sources, optional PMux, all 11 kinds, constants / 1-D / affine 2-D / general "
    "2-D tables, positive / negative / mixed polarity, benign and heavy drop regimes, with and without phases) "
    "built through the public API and solved at default and tight tolerances; every component row of every "
    "returned table is judged by the reference laws (structure from the spec). Non-trivial = solve() returned, "
    "no series element lost polarity, >= 4 component rows of >= 3 kinds were law-checked; distinct = canonical spec hash"
)
REQUIRED = ["link.vin", "link.iout", "link.iout_source", "law.vout", "law.iin", "law.source_vin", "mirror.twin"]
SIZES = {"quick": 350, "thorough": 2500}
ASSUMPTIONS = [
    "table rows hold solver iterate k: law residuals are bounded by 2*(1e-8 + tol*|x|) as derived in DESIGN.md section 2",
    "general 2-D tables: the law must be satisfiable for a parameter value inside the corner range of the enclosing cell",
    "tables where a passive series element lost polarity are outside C01's quantifier and are judged by C03",
]
ACCEPT = ("rows.", "finite", "link.", "law.", "label.type")


def gen_opts(rng, tier):
    big = tier == "thorough"
    return dict(
        n_comp=(2, 30 if big else 14), n_src=(1, 4) if rng.random() < 0.4 else (1, 1), mux=0.35,
        polarity=rng.choice(["pos", "pos", "neg", "mixed", "any"]), regime=rng.choice(["benign", "benign", "heavy"]),
        tables=rng.choice([0.0, 0.3, 0.7]), phases=0.3, rails=rng.choice([0.0, 0.5]), groups=0.2,
        max_depth=rng.choice([3, 6, 10]), neg_src_rs=0.15, dead=rng.choice([0.0, 0.0, 0.3]),
        neg_mag=rng.choice([0.0, 0.0, 0.2]),
    )


def _strong_tables(rng, standby=False):
    """Every tabulated element with a table that depends STRONGLY on both coordinates (affine in io and vi, so that
    every triangulation agrees) and a large series drop across it: looking the table up at any other voltage or
    current than (input voltage, output current) shows in the row.

    standby=True: the milliampere / 3 V class with steep tables on a fine io axis, and load phases whose currents
    differ by fractions of a microampere - neighbouring operating points must each be looked up where they are."""
    sgn = rng.choice([1, 1, -1])
    if standby:
        V = G.sig(rng.uniform(2.5, 3.8))
        I = G.sig(rng.uniform(1.0e-3, 2.5e-3))
        vis = [2.0, 3.0, 4.0]
        ios = [0.0, 0.001, 0.003]
        kx, kv, kr = 250.0, 0.05, 1.0  # steeper in io, flatter in vi; series resistances as they are
    else:
        # half of the supplies lie ABOVE the tables' vi range (the lookup is clamped to the nearest edge, which for rows
        # in arbitrary order is not the first / last listed row)
        V = G.sig(rng.uniform(14.0, 30.0)) if rng.random() < 0.5 else G.sig(rng.uniform(45.0, 60.0))
        I = G.sig(rng.uniform(0.4, 1.5))
        vis = [2.0, 12.0, 40.0]
        ios = [0.0, 0.5, 3.0]
        kx, kv, kr = 1.0, 1.0, 1.0

    def tab(z, a0, bx, cy):
        # rows listed ascending, descending or in ARBITRARY order (each row carries its own vi; the first / last listed
        # row need not be the extreme one), vi optionally written with the sign of the rail
        perm = rng.choice([[0, 1, 2], [2, 1, 0], [1, 2, 0], [1, 0, 2], [2, 0, 1], [0, 2, 1]])
        vv = [vis[k] for k in perm]
        return {"vi": [sgn * v for v in vv] if rng.random() < 0.3 else list(vv), "io": list(ios),
                z: [[G.sig(a0 + bx * kx * x + cy * kv * v, 6) for x in ios] for v in vv]}

    def c(name, kind, args, parents):
        return {"name": name, "kind": kind, "args": args, "parents": parents, "group": "", "rail": "", "limits": None, "phase": None}

    comps = [c("S", "Source", {"vo": sgn * V, "rs": 0.0}, [])]
    par = "S"
    order = rng.sample(["Rectifier", "PSwitch", "VLoss", "LinReg"], rng.randint(1, 3))
    if standby:
        # the voltage-valued table sits directly on the stiff source: its input voltage is the same in every phase, so
        # the operating points differ in the currents only
        order = ["VLoss"] + [k_ for k_ in order if k_ != "VLoss"]
    for k, kind in enumerate(order):
        n = "T%d" % k
        if kind == "Rectifier":
            a = {"rs": G.sig(rng.uniform(0.8, 2.0) * kr), "ig": tab("ig", 1e-3 * (0.01 if standby else 1), 2e-3, 6e-4 * (0.01 if standby else 1)), "iq": 1e-5}
        elif kind == "PSwitch":
            a = {"rs": G.sig(rng.uniform(1.0, 3.0) * kr), "ig": tab("ig", 2e-3 * (0.01 if standby else 1), 1e-3, 5e-4 * (0.01 if standby else 1))}
        elif kind == "VLoss":
            a = {"vdrop": tab("vdrop", 0.05 if standby else 0.3, 0.4, 0.04)}
        else:
            a = {"vo": sgn * (1.2 if standby else 3.3), "vdrop": 0.1 if standby else 0.3,
                 "ig": tab("ig", 1e-3 * (0.01 if standby else 1), 3e-3, 7e-4 * (0.01 if standby else 1))}
        comps.append(c(n, kind, a, [par]))
        par = n
        if kind == "LinReg":
            break
    comps.append(c("L", "ILoad", {"ii": I}, [par]))
    phases = {}
    if standby:
        d1, d2 = rng.choice([2e-7, 3e-7, 4e-7]), rng.choice([2e-7, 3e-7])
        phases = {"run": 5.0, "run+": 5.0, "doze": 20.0, "doze+": 20.0}
        comps[-1]["phase"] = {"run": I, "run+": I + d1, "doze": G.sig(I * 0.3), "doze+": G.sig(I * 0.3) + d2}
    elif rng.random() < 0.6:
        # several load phases: the same tabulated objects are looked up at several operating points in ONE solve()
        phases = {"run": 5.0, "doze": 20.0, "sleep": 100.0}
        comps[-1]["phase"] = {"run": I, "doze": G.sig(I * rng.uniform(0.4, 0.7)), "sleep": G.sig(I * rng.uniform(0.05, 0.3))}
    return {"name": "strong-tables", "comps": comps, "phases": phases, "phases_first": True,
            "_meta": {"polarity": "neg" if sgn < 0 else "pos"}}


def gen(rng, i, tier):
    if i % 10 == 7:
        spec = _strong_tables(rng, standby=i % 20 == 17)
        case = {"spec": spec, "tol": 1e-9, "ta": 25.0}
        case.update(_rows.random_call_context(rng))
        return case
    spec = gen_system(rng, tier)
    spec = _mux_layout(rng, spec)
    tight = rng.random() < 0.4
    if rng.random() < 0.15:
        spec = G.scale_currents(spec, 10 ** rng.uniform(-6, 5))  # uA-class ... kA-class systems
    case = {"spec": spec, "tol": 1e-9 if tight else 1e-6, "ta": 25.0}
    case.update(_rows.random_call_context(rng))
    if spec.get("name") == "mux" and rng.random() < 0.5:
        # mux-centred layouts (often running from a non-first input) are assembled with reports in between
        case["history"] = "analysed_while_built"
    return case


def gen_system(rng, tier):
    return G.gen_system(rng, **gen_opts(rng, tier))


def directed():
    src = lambda vo, rs: {"name": "S", "kind": "Source", "args": {"vo": vo, "rs": rs}, "parents": [], "group": "",
                          "rail": "", "limits": None, "phase": None}
    ld = {"name": "L", "kind": "ILoad", "args": {"ii": 1.0}, "parents": ["S"], "group": "", "rail": "",
          "limits": None, "phase": None}
    return [
        {"spec": {"name": "neg-source-rs", "comps": [src(-12.0, 1.0), ld], "phases": {}}, "tol": 1e-6, "ta": 25.0},
        {"spec": {"name": "pos-source-rs", "comps": [src(12.0, 1.0), ld], "phases": {}}, "tol": 1e-6, "ta": 25.0},
    ]


def run(ctx, case):
    df, info, sysobj = _rows.solve_and_judge(ctx, case, ACCEPT)
    spec = case["spec"]
    if df is None:
        return
    kinds = _rows.observe(ctx, spec)
    if len(spec["comps"]) >= 4 and len(kinds) >= 3:
        ctx.nontrivial(S.canonical(spec))
    ctx.sample({"spec": _short(spec), "rows": len(df)})
    mirror(ctx, case, spec, df)


MIRROR_TOL = 1e-10


def mirror(ctx, case, spec, df):
    """Metamorphic twin through the real code: negate all supplies -> voltages mirrored, currents/powers equal.

    Both systems are solved at vtol=itol=1e-10 so that the comparison is not blurred by the stopping rule.
    A source's rs is modelled in the twin as Source(rs=0)->RLoss(rs), which keeps the twin clear of known
    finding F1; specs that themselves contain a negative source with rs are judged by law.vout instead.
    """
    if _neg_src_rs(spec):
        ctx.count("mirror", "skipped: negative source with rs (law.vout judges it)")
        return
    twin, alias = H.mirror_spec(spec, split_source_rs=True)
    st, t = H.try_build(twin)
    if st != "ok":
        raise RuntimeError("mirror twin rejected: %s" % H.exc_sig(t))
    st, o = H.try_build(spec)
    st1, df1 = H.solve(o, vtol=MIRROR_TOL, itol=MIRROR_TOL, ta=case["ta"])
    st2, df2 = H.solve(t, vtol=MIRROR_TOL, itol=MIRROR_TOL, ta=case["ta"])
    if st1 != "ok" or st2 != "ok":
        # a tight-tolerance solve may legitimately need more than maxiter sweeps; not a C01 matter
        ctx.count("mirror", "undetermined: tight solve raised (%s/%s)" % (st1, st2))
        return
    _, pa, _ = M.split_table(df1)
    _, pb, _ = M.split_table(df2)
    bad = []
    for ph in pa:
        ra, rb = pa[ph]["rows"], pb.get(ph, {"rows": {}})["rows"]
        tt = H.TwinTol(ra, rows2=rb)
        for n, x in ra.items():
            y = rb.get(n)
            if y is None:
                bad.append((ph, n, "missing"))
                continue
            yo = rb[alias[n]] if n in alias else y  # row carrying the source's output in the twin
            C = M.COLS
            for k, v_ in (("vin", y), ("vout", yo)):
                if not tt.v(abs(x[C[k]]), abs(v_[C[k]])):
                    bad.append((ph, n, k, x[C[k]], v_[C[k]]))
            for k in ("iin", "iout"):
                if not tt.i(x[C[k]], y[C[k]]):
                    bad.append((ph, n, k, x[C[k]], y[C[k]]))
            if not tt.p(x[C["p"]], y[C["p"]], x[C["vin"]], x[C["iin"]]):
                bad.append((ph, n, "p", x[C["p"]], y[C["p"]]))
            if not tt.p(x[C["l"]], yo[C["l"]], x[C["vin"]], x[C["iin"]]):
                bad.append((ph, n, "l", x[C["l"]], yo[C["l"]]))
            if x["Type"] == "SOURCE" and x[C["vout"]] != 0 and not (
                    M.sgn(x[C["vout"]]) == -M.sgn(yo[C["vout"]])):
                bad.append((ph, n, "source sign not mirrored", x[C["vout"]], yo[C["vout"]]))
            if x["Type"] not in ("SOURCE", "LOAD") and x[C["vout"]] != 0 and x["Type"] != "RECTIFIER":
                pass
    ctx.check("mirror.twin", not bad, {"differences": bad[:6]})


def _neg_src_rs(spec):
    return any(c["kind"] == "Source" and c["args"]["vo"] < 0 and abs(c["args"].get("rs", 0.0)) > 0
               for c in spec["comps"])


def _close(u, v, rel=1e-6):
    return abs(u - v) <= rel * max(abs(u), abs(v)) + 1e-7


def _short(spec):
    return {"comps": [{k: c[k] for k in ("name", "kind", "args", "parents", "phase") if c.get(k) not in (None, "")}
                      for c in spec["comps"]][:12], "phases": spec.get("phases")}


def finish(ctx):
    _rows.repo_tests_under_monitor(ctx, ACCEPT)


def _mux_layout(rng, spec):
    """One case in five: a mux-centred layout (inputs below other components, per-input rs, tabulated ig, random
    live/dead input pattern) shared with C05, so that mux rows running from a NON-first input are judged here too."""
    if rng.random() >= 0.2:
        return spec
    from . import c05

    lay = c05.layout(rng, rng.choice([2, 3, 4]))
    return c05.realise(lay, [rng.choice([0, 1]) for _ in range(lay["k"])])
