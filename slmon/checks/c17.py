"""C17 - analyses are read-only; batt_life restores the battery's voltage and resistance even on failure."""

import copy
import inspect
import json
import os
import random

from .. import gen as G, harness as H, hist, loader, spec as S
from . import _rows

PROP = "C17"
LEVEL = "fault_enumeration"
ANCHORS = ["batt_life", "get_conf", "_diag", "System.solve", "plot_interp"]  # functions whose reached lines are reported in the evidence
RULE = (
    "cases (a) = random interleavings of 12-30 analysis calls (solve with assorted arguments, rail_rep, params, "
    "limits, phases, tree, save, plot_interp, make_diag, make_hdiag, batt_life) on one or two random systems with "
    "tables, phases, rails and several sources; after EVERY call the observables (tree, params(limits), phases, "
    "save document, solve table) of every system, the argument objects passed in (tags / config dicts, deep "
    "compared) and a fingerprint of all module-level mutable defaults (LIMITS_DEFAULT, STATE_*, diagram _DEF_*, "
    "mutable function defaults) must be unchanged, and solve() repeated must return an identical table. "
    "cases (b) = batt_life fault enumeration: for a run of N depletion steps, the probe callback raises, the "
    "deplete callback raises at its k-th call for EVERY k in 1..N, and a failpoint wrapped around System._solve "
    "raises at the k-th solver call for EVERY k, with Exception and BaseException subclasses; afterwards the "
    "battery's vo/rs shown by params() and save() must be the configured ones. Non-trivial = (a) >= 12 calls "
    "of >= 6 kinds, (b) >= 5 injection points; distinct = case seed"
)
REQUIRED = ["readonly.observables", "readonly.arguments", "readonly.module_defaults", "readonly.solve_repeatable",
            "battlife.restored_on_return", "battlife.restored_on_dfunc_raise", "battlife.restored_on_pfunc_raise",
            "battlife.restored_on_solver_raise", "readonly.later_result_as_pristine"]
CASE_TIMEOUT = 600  # seconds; generous (one battlife case = up to 2 x steps complete depletion runs)
SIZES = {"quick": 50, "thorough": 420}
ASSUMPTIONS = ["diagram calls render through the local Graphviz 'dot' binary into a temporary directory (format raw)"]

_fail = {"at": None, "count": 0, "exc": None}


class Stop(BaseException):
    """A KeyboardInterrupt-like BaseException subclass used by the fault injection."""


class ModelError(Exception):
    pass


def setup(ctx):
    ns = loader.load()
    Sy = ns.System
    if getattr(Sy._solve, "_slmon17", False):
        return
    orig = Sy._solve

    def _solve(self, *a, **k):
        if _fail["at"] is not None:
            _fail["count"] += 1
            if _fail["count"] == _fail["at"]:
                raise _fail["exc"]
        return orig(self, *a, **k)

    _solve._slmon17 = True
    _solve._slmon = getattr(orig, "_slmon", False)
    Sy._solve = _solve


def module_fingerprint(ns):
    fp = {}
    for mod in (ns.comps, ns.system, ns.diagram, ns.utils):
        for name, val in vars(mod).items():
            if name.startswith("__"):
                continue
            if isinstance(val, (dict, list)) and name.isupper() or name.startswith("_DEF") or name in ("_COLD_RGB", "_WARM_RGB"):
                fp["%s.%s" % (mod.__name__, name)] = json.dumps(val, sort_keys=True, default=repr)
            objs = []
            if inspect.isfunction(val):
                objs = [(name, val)]
            elif inspect.isclass(val) and val.__module__ == mod.__name__:
                objs = [("%s.%s" % (name, n), f) for n, f in vars(val).items() if inspect.isfunction(f)]
                objs += [("%s.%s" % (name, n), f.__func__) for n, f in vars(val).items() if isinstance(f, classmethod)]
                for n, v in vars(val).items():
                    if isinstance(v, (dict, list)):
                        fp["%s.%s.%s" % (mod.__name__, name, n)] = json.dumps(v, sort_keys=True, default=repr)
            for qn, f in objs:
                d = [x for x in (f.__defaults__ or ()) if isinstance(x, (dict, list, set))]
                kd = {k: v for k, v in (f.__kwdefaults__ or {}).items() if isinstance(v, (dict, list, set))}
                if d or kd:
                    fp["%s.%s()" % (mod.__name__, qn)] = json.dumps([d, kd], sort_keys=True, default=repr)
    return fp


def gen(rng, i, tier):
    mode = "battlife" if i % 2 else "interleave"
    big = tier == "thorough"
    spec = G.gen_system(
        rng, n_comp=(3, 14 if big else 9), n_src=(1, 3) if rng.random() < 0.5 else (1, 1), mux=0.3, polarity="pos",
        regime="benign", tables=0.5, phases=0.5, max_depth=4, phase_conf=0.5, rt=0.4, groups=0.4,
        rails=rng.choice([0.0, 0.5]), general2d=0.3,
    )
    return {"mode": mode, "spec": spec, "seed": rng.randrange(1 << 40), "n_calls": rng.choice([12, 20, 30]),
            "steps": rng.choice([3, 6, 10, 16])}


def battery_model(cap0, v0, r0, steps, sag=0.0, fail_at=None, exc=None, log=None):
    """Deterministic battery model depleting in `steps` deplete calls regardless of the current."""
    st = {"cap": cap0, "n": 0}

    def pfunc():
        if fail_at == 0:
            raise exc
        return (st["cap"], v0, r0)

    def dfunc(t, i):
        st["n"] += 1
        if log is not None:
            log.append((t, i))
        if fail_at is not None and st["n"] == fail_at:
            raise exc
        st["cap"] = cap0 * (1.0 - st["n"] / float(steps))
        return (st["cap"], v0 - sag * st["n"], r0 * (1.0 + 0.1 * st["n"]))

    return pfunc, dfunc


def batt_view(sysobj, name, d):
    """vo / rs of the battery as params() and save() show them."""
    out = {}
    st, pr = H.call(sysobj.params)
    if st == "ok":
        r = [x for x in pr.to_dict("records") if x["Component"] == name][0]
        out["params"] = [r["vo (V)"], r["rs (Ohm)"]]
    else:
        out["params"] = "raised " + H.exc_sig(pr)
    fn = os.path.join(d, "b.json")
    st, r = H.call(sysobj.save, fn)
    if st == "ok":
        doc = json.load(open(fn))
        out["save"] = [doc[name]["params"].get("vo"), doc[name]["params"].get("rs")]
    else:
        out["save"] = "raised " + H.exc_sig(r)
    return out


def run(ctx, case):
    ns = loader.load()
    rng = random.Random(case["seed"])
    spec = case["spec"]
    st, sysobj = H.try_build(spec)
    if st != "ok":
        raise RuntimeError("spec rejected: %s" % H.exc_sig(sysobj))
    if case["mode"] == "battlife":
        return run_battlife(ctx, case, ns, rng, spec, sysobj)
    return run_interleave(ctx, case, ns, rng, spec, sysobj)


def run_battlife(ctx, case, ns, rng, spec, sysobj):
    srcs = [c for c in spec["comps"] if c["kind"] == "Source"]
    b = rng.choice(srcs)
    name = b["name"]
    by_rail = bool(b.get("rail")) and rng.random() < 0.3
    ref = b["rail"] if by_rail else name
    steps = case["steps"]
    v0 = abs(float(b["args"]["vo"])) or 5.0
    injections = 0
    with H.tmpdir() as d, H.quiet():
        want = batt_view(sysobj, name, d)
        base = hist.observe(sysobj, d)
        det0 = {"battery": name, "addressed_by": "rail" if by_rail else "name", "steps": steps}

        def check(clause, det):
            got = batt_view(sysobj, name, d)
            ok = got == want
            ctx.check(clause, ok, dict(det0, **det, configured=want, after=got))
            if not ok:
                # put the battery back so that later injections are judged independently
                obj = sysobj._g[sysobj._g.attrs["nodes"][name]]
                obj._params["vo"], obj._params["rs"] = b["args"]["vo"], abs(b["args"].get("rs", 0.0))

        # normal run
        import time as _time

        pf, df = battery_model(1.0, v0, 0.05, steps, sag=v0 * 0.01)
        t_run = _time.time()
        st, r = H.call(sysobj.batt_life, ref, cutoff=v0 * 0.5, pfunc=pf, dfunc=df)
        t_run = _time.time() - t_run
        # every failpoint k = 1..steps is enumerated unless one run of this system is slow (a slowly converging
        # system): then first, last and a sample in between, so that a case stays far below the watchdog limit
        budget = max(3, min(steps, int(25.0 / max(t_run, 1e-3))))
        ks = list(range(1, steps + 1))
        if budget < steps:
            ks = sorted(set([1, steps] + rng.sample(ks, budget - 2)))
            ctx.count("battlife", "failpoints sampled (slow system)")
        if st != "ok":
            ctx.count("battlife", "normal run raised " + type(r).__name__)
        check("battlife.restored_on_return", {"outcome": "returned" if st == "ok" else H.exc_sig(r)})
        # the probe raises
        for exc in (ModelError("probe failed"), Stop()):
            pf, df = battery_model(1.0, v0, 0.05, steps, fail_at=0, exc=exc)
            st, r = call_base(sysobj.batt_life, ref, cutoff=v0 * 0.5, pfunc=pf, dfunc=df)
            check("battlife.restored_on_pfunc_raise", {"exception": type(exc).__name__, "propagated": st})
            injections += 1
        # the deplete callback raises at the k-th call, for every k
        for k in ks:
            exc = rng.choice([ModelError("deplete failed"), ValueError("bad"), ZeroDivisionError(), Stop()])
            pf, df = battery_model(1.0, v0, 0.05, steps, sag=v0 * 0.01, fail_at=k, exc=exc)
            st, r = call_base(sysobj.batt_life, ref, cutoff=v0 * 0.5, pfunc=pf, dfunc=df)
            ctx.count("dfunc_injection_propagated", st)
            check("battlife.restored_on_dfunc_raise", {"k": k, "exception": type(exc).__name__, "propagated": st})
            injections += 1
        # the solver raises at the k-th solver call, for every k
        for k in ks:
            exc = rng.choice([RuntimeError("Steady-state not achieved"), ValueError("Unstable system"), Stop()])
            pf, df = battery_model(1.0, v0, 0.05, steps, sag=v0 * 0.01)
            _fail.update(at=k, count=0, exc=exc)
            try:
                st, r = call_base(sysobj.batt_life, ref, cutoff=v0 * 0.5, pfunc=pf, dfunc=df)
            finally:
                _fail.update(at=None, count=0, exc=None)
            check("battlife.restored_on_solver_raise", {"k": k, "exception": type(exc).__name__, "propagated": st})
            injections += 1
        after = hist.observe(sysobj, d)
        diff = hist.obs_diff(base, after)
        ctx.check("readonly.observables", not diff, dict(det0, call="batt_life (all injections)", changed=[x[0] for x in diff],
                                                         first=diff[:1]))
    if injections >= 5:
        ctx.nontrivial(["battlife", case["seed"]])
    ctx.sample({"mode": "battlife", "battery": name, "steps": steps, "injections": injections})


def call_base(fn, *a, **k):
    """Like harness.call but also catches BaseException subclasses used for injection."""
    try:
        return "returned", fn(*a, **k)
    except Stop as e:
        return "Stop", e
    except Exception as e:  # noqa: BLE001
        return type(e).__name__, e


def run_interleave(ctx, case, ns, rng, spec, sysobj):
    import matplotlib.pyplot as plt

    systems = [(spec, sysobj)]
    if rng.random() < 0.5:
        spec2 = G.gen_system(rng, n_comp=(2, 8), n_src=(1, 2), mux=0.2, tables=0.5, phases=0.5, rails=0.3, groups=0.3)
        st, s2 = H.try_build(spec2)
        if st == "ok":
            systems.append((spec2, s2))
    kinds_called = set()
    ncalls = 0
    with H.tmpdir() as d, H.quiet():
        fp0 = module_fingerprint(ns)
        base = [hist.observe(s, d) for _, s in systems]
        for k in range(case["n_calls"]):
            idx = rng.randrange(len(systems))
            sp, s = systems[idx]
            phases = list((sp.get("phases") or {}).keys())
            names = [c["name"] for c in sp["comps"]]
            tabs = [c["name"] for c in sp["comps"] if any(isinstance(v, dict) for v in c["args"].values())]
            srcs = [c["name"] for c in sp["comps"] if c["kind"] == "Source"]
            what = rng.choice(["solve", "solve", "solve_kw", "rail_rep", "params", "limits", "phases", "tree", "tree_sub", "save",
                               "plot_interp", "make_diag", "make_hdiag", "batt_life", "get_conf"])
            args_before = None
            argobj = None
            if what == "solve":
                fn = lambda: s.solve()
            elif what == "solve_kw":
                tags = {"run": k, "label": "x"} if rng.random() < 0.6 else {}
                argobj = tags
                kw = dict(energy=rng.random() < 0.5, ta=rng.uniform(-20, 80), tags=tags, vtol=rng.choice([1e-6, 1e-4]),
                          quiet=rng.random() < 0.8)
                if phases and rng.random() < 0.5:
                    kw["phase"] = rng.choice(phases)
                fn = lambda: s.solve(**kw)
            elif what == "rail_rep":
                tags = {"t": 1}
                argobj = tags
                fn = lambda: s.rail_rep(tags=tags)
            elif what == "params":
                fn = lambda: s.params(limits=rng.random() < 0.5)
            elif what == "limits":
                fn = s.limits
            elif what == "phases":
                fn = s.phases
            elif what == "tree":
                fn = s.tree
            elif what == "tree_sub":
                fn = lambda: s.tree(rng.choice(names))
            elif what == "save":
                fn = lambda: s.save(os.path.join(d, "x.json"), indent=rng.choice([1, 4]))
            elif what == "plot_interp":
                n = rng.choice(tabs) if tabs else rng.choice(names)
                fn = lambda: s.plot_interp(n, plot3d=rng.random() < 0.3, inpdata=rng.random() < 0.7)
            elif what in ("make_diag", "make_hdiag"):
                conf = ns.diagram.get_conf() if rng.random() < 0.6 else {}
                if conf:
                    conf["node"]["Source"] = {"fillcolor": "coral"}
                    conf["graph"]["rankdir"] = rng.choice(["TB", "LR"])
                argobj = conf
                f = getattr(ns.diagram, what)
                fn = lambda: f(s, fname=os.path.join(d, "g.raw"), group=rng.random() < 0.7, config=conf)
            elif what == "get_conf":
                def fn():
                    c = ns.diagram.get_conf()
                    c["node"]["default"]["fillcolor"] = "red"  # a caller editing the returned dict must not edit the defaults
                    c["graph"]["rankdir"] = "LR"
                    return c
            else:
                bname = rng.choice(srcs)
                pf, df = battery_model(0.5, 12.0, 0.1, rng.choice([2, 4]), sag=0.1)
                tags = {"cell": "A"}
                argobj = tags
                fn = lambda: s.batt_life(bname, cutoff=3.0, pfunc=pf, dfunc=df, tags=tags)
            if argobj is not None:
                args_before = copy.deepcopy(argobj)
            st, r = H.call(fn)
            plt.close("all")
            ncalls += 1
            kinds_called.add(what)
            ctx.count("calls", what + ("" if st == "ok" else "/raised:" + type(r).__name__))
            det = {"call": what, "outcome": "ok" if st == "ok" else H.exc_sig(r), "step": k, "kind": what}
            if argobj is not None:
                ctx.check("readonly.arguments", argobj == args_before, dict(det, before=args_before, after=argobj))
            fp = module_fingerprint(ns)
            changed = [key for key in fp0 if fp.get(key) != fp0[key]] + [key for key in fp if key not in fp0]
            ctx.check("readonly.module_defaults", not changed, dict(det, changed=changed[:5],
                                                                    now={c: fp.get(c) for c in changed[:2]}, was={c: fp0.get(c) for c in changed[:2]}))
            if changed:
                fp0 = fp
            for j, (_, sj) in enumerate(systems):
                now = hist.observe(sj, d)
                diff = hist.obs_diff(base[j], now)
                ctx.check("readonly.observables", not diff,
                          dict(det, system=j, called_on=idx, changed=[x[0] for x in diff], first=diff[:1]))
                if diff:
                    base[j] = now
        # solve() twice -> identical tables
        for _, sj in systems:
            s1, a = H.solve(sj, energy=True)
            s2, b = H.solve(sj, energy=True)
            if s1 == "ok" and s2 == "ok":
                diffs = H.frames_equal(a, b)
                ctx.check("readonly.solve_repeatable", not diffs, {"differences": diffs[:5]})
            else:
                ctx.check("readonly.solve_repeatable", s1 == s2, {"first": s1, "second": s2})
        # "interleaving changes no later result": calls with arguments NOT used so far give what a pristine system
        # (built the same way, never analysed) gives for the same call
        for sp, sj in systems:
            phs = list((sp.get("phases") or {}).keys())
            for round_ in range(2):
                kw = dict(ta=rng.choice([-20.0, 60.0, 85.0, rng.uniform(-40, 125)]), energy=rng.random() < 0.5)
                if rng.random() < 0.4:
                    kw.update(vtol=1e-8, itol=1e-8)
                if phs and rng.random() < 0.4:
                    kw["phase"] = rng.choice(phs)
                which = rng.choice(["solve", "solve", "rail_rep"])
                if which == "rail_rep":
                    kw.pop("energy", None)
                stp, pristine = H.try_build(sp)
                if stp != "ok":
                    continue
                if round_ == 1 and rng.random() < 0.6:  # (last round only: the used system keeps the edit)
                    # ... also after one and the same EDIT of both systems (the first rail / group of the system, or a
                    # parameter change): what the earlier analyses left behind must not outlive the edit either
                    cand = [c for c in sp["comps"] if c["kind"] not in S.LOADS and c["kind"] != "PMux"]
                    if cand:
                        c = rng.choice(cand)
                        new_rail = c.get("rail") or "R late"
                        new_group = c.get("group") or "G late"
                        for target in (sj, pristine):
                            H.call(target.change_comp, c["name"], comp=S.make_comp(ns, c), group=new_group, rail=new_rail)
                            if c.get("phase") is not None:
                                H.call(target.set_comp_phases, c["name"], copy.deepcopy(c["phase"]))
                        kw = dict(kw)
                        ctx.count("later_calls", "after an identical edit of both systems")
                s1, a = H.call(getattr(sj, which), **kw)
                s2, b = H.call(getattr(pristine, which), **kw)
                det = {"call": which, "kwargs": kw, "kind": "later/" + which}
                if s1 == "ok" and s2 == "ok":
                    diffs = H.frames_equal(a, b, rel=1e-9)
                    ctx.check("readonly.later_result_as_pristine", not diffs, dict(det, differences_used_vs_pristine=diffs[:5]))
                else:
                    ctx.check("readonly.later_result_as_pristine", s1 == s2, dict(det, used=s1, pristine=s2,
                                                                                  exception=H.exc_sig(a if s1 != "ok" else b)))
    if ncalls >= 12 and len(kinds_called) >= 6:
        ctx.nontrivial(["interleave", case["seed"]])
    ctx.sample({"mode": "interleave", "systems": len(systems), "calls": sorted(kinds_called)})
