"""C15 - a rejected edit / configuration call leaves the system untouched (twin-run oracle)."""

import copy
import random

from .. import harness as H, hist, loader

PROP = "C15"
LEVEL = "fault_enumeration"
ANCHORS = ["add_comp", "add_source", "change_comp", "del_comp", "_chk_", "set_sys_phases", "set_comp_phases"]  # functions whose reached lines are reported in the evidence
RULE = (
    "cases = edit histories driven on TWO real System objects: the subject receives every call, the twin skips "
    "exactly the calls that raised on the subject. At each state the generator fires, besides random edits, the "
    "enumerated rejection classes of the property: unknown targets, rail-valued targets of change_comp / del_comp, "
    "duplicate names / rails (name = existing name, = existing rail, rail = existing name / rail / own name), "
    "incompatible kinds (child under a load, Source as child, list parent for a non-mux, duplicate parents, second "
    "mux, source -> non-source, mux -> non-mux, parent of children -> load), last-source deletion, source deletion "
    "with del_childs=False, one-phase / 'N/A' / non-dict system phases, non-dict/list component phases, phase "
    "configuration on RLoss / VLoss. After EVERY step tree(), params(limits=True), phases(), the save() document "
    "and the solve() table of subject and twin are compared exactly; a call accepted by the subject must be "
    "accepted by the twin. Non-trivial = history with >= 10 rejected calls of >= 5 classes; distinct = history seed"
)
REQUIRED = ["rejected.state_unchanged", "accepted.same_on_twin"]
SIZES = {"quick": 45, "thorough": 500}
ASSUMPTIONS = ["internal-state differences without observable effect are logged as diagnostics, never as violations"]


def gen(rng, i, tier):
    return {"seed": rng.randrange(1 << 40), "n_ops": rng.choice([15, 30, 45]), "observe_every": [1, 1, 3, 2][i % 4], "twin_is_copy": i % 3 == 2}


def rejection_ops(rng, L):
    """(class, op) pairs that the property expects to be rejected in state L."""
    names, kinds = L["names"], L["kinds"]
    rails = [r for r in L["rails"].values() if r]
    loads = [n for n in names if kinds[n] in ("PLoad", "ILoad", "RLoad")]
    srcs = [n for n in names if kinds[n] == "Source"]
    nonload = [n for n in names if n not in loads]
    muxes = [n for n in names if kinds[n] == "PMux"]
    with_children = [n for n in names if L["children"][n] and kinds[n] not in ("Source", "PMux")]
    free = [n for n in hist.NAME_POOL + ["Z%d" % k for k in range(1, 40)] if n not in names and n not in rails]  # never empty
    fresh = lambda: rng.choice(free)
    ce = lambda kind, name: hist.comp_entry(rng, kind, name)
    out = []
    # the unknown name is a fixed string or a FREE pool name (one that a later, accepted call may well introduce)
    unk = lambda: rng.choice(["nope", fresh(), fresh()])
    out.append(("unknown.change", {"op": "change_comp", "name": unk(), "comp": ce("RLoss", fresh())}))
    out.append(("unknown.del", {"op": "del_comp", "name": unk(), "del_childs": rng.random() < 0.5}))
    out.append(("unknown.phases", {"op": "set_comp_phases", "name": unk(), "conf": ["a"]}))
    out.append(("unknown.parent", {"op": "add_comp", "parent": unk(), "comp": ce("RLoss", fresh())}))
    if rails:
        r = rng.choice(rails)
        out.append(("railtarget.change", {"op": "change_comp", "name": r, "comp": ce("RLoss", fresh())}))
        out.append(("railtarget.del", {"op": "del_comp", "name": r, "del_childs": rng.random() < 0.5}))
    p = rng.choice(nonload)
    ex = rng.choice(names)
    out.append(("dup.name.add_comp", {"op": "add_comp", "parent": p, "comp": ce("RLoss", ex)}))
    out.append(("dup.name.add_source", {"op": "add_source", "comp": ce("Source", ex)}))
    out.append(("dup.rail_is_own_name", {"op": "add_comp", "parent": p, "comp": ce("RLoss", (lambda n: n)(free[0])), "rail": free[0]}))
    out.append(("dup.rail_is_name", {"op": "add_comp", "parent": p, "comp": ce("RLoss", fresh()), "rail": ex}))
    if rails:
        r = rng.choice(rails)
        out.append(("dup.name_is_rail", {"op": "add_comp", "parent": p, "comp": ce("RLoss", r)}))
        out.append(("dup.rail", {"op": "add_comp", "parent": p, "comp": ce("Converter", fresh()), "rail": r}))
        out.append(("dup.rail.add_source", {"op": "add_source", "comp": ce("Source", fresh()), "rail": r}))
        t = rng.choice(names)
        other = [x for x in rails if x != L["rails"].get(t)]
        if other and kinds[t] not in ("PLoad", "ILoad", "RLoad"):
            out.append(("dup.rail.change_same_name", {"op": "change_comp", "name": t, "comp": ce(kinds[t], t), "rail": rng.choice(other)}))
    t = rng.choice(names)
    others = [n for n in names if n != t]
    if others:
        out.append(("dup.name.change", {"op": "change_comp", "name": t, "comp": ce(kinds[t], rng.choice(others))}))
    if loads:
        out.append(("incompat.child_under_load", {"op": "add_comp", "parent": rng.choice(loads), "comp": ce("ILoad", fresh())}))
    out.append(("incompat.source_as_child", {"op": "add_comp", "parent": p, "comp": ce("Source", fresh())}))
    out.append(("incompat.list_parent_nonmux", {"op": "add_comp", "parent": [p], "comp": ce("Converter", fresh())}))
    out.append(("incompat.duplicate_parents", {"op": "add_comp", "parent": [p, p], "comp": ce("PMux", fresh())}))
    if loads and not muxes and len(nonload) >= 1:
        # a mux whose parent list names a component that cannot be a parent (a load) in a LATER position (or first)
        bad_par = [rng.choice(nonload), rng.choice(loads)]
        if rng.random() < 0.3:
            bad_par.reverse()
        if len(nonload) >= 2 and rng.random() < 0.4:
            bad_par.insert(1, rng.choice([n for n in nonload if n != bad_par[0]] or nonload))
        if len(set(bad_par)) == len(bad_par):
            out.append(("incompat.mux_parent_is_load", {"op": "add_comp", "parent": bad_par, "comp": ce("PMux", fresh())}))
    if rails and not muxes:
        owner = rng.choice([n for n in names if L["rails"].get(n)])
        others2 = [n for n in nonload if n != owner]
        al = [owner, L["rails"][owner]] + ([rng.choice(others2)] if others2 else [])
        rng.shuffle(al)
        # the same input named twice through its component name and its rail name (accepted or rejected - either way
        # the call must be atomic)
        out.append(("alias.duplicate_parents", {"op": "add_comp", "parent": al, "comp": ce("PMux", fresh())}))
    if muxes:
        out.append(("incompat.second_mux", {"op": "add_comp", "parent": [p], "comp": ce("PMux", fresh())}))
        out.append(("incompat.mux_to_nonmux", {"op": "change_comp", "name": muxes[0], "comp": ce("PSwitch", muxes[0])}))
        cand = [n for n in names if kinds[n] not in ("Source", "PMux")]
        if cand:
            c = rng.choice(cand)
            out.append(("incompat.second_mux_via_change", {"op": "change_comp", "name": c, "comp": ce("PMux", c)}))
    s = rng.choice(srcs)
    out.append(("incompat.source_to_nonsource", {"op": "change_comp", "name": s, "comp": ce("Converter", s)}))
    if with_children:
        c = rng.choice(with_children)
        out.append(("incompat.parent_to_load", {"op": "change_comp", "name": c, "comp": ce("PLoad", c)}))
    out.append(("delete.source_keep_children", {"op": "del_comp", "name": s, "del_childs": False}))
    if len(srcs) == 1:
        out.append(("delete.last_source", {"op": "del_comp", "name": s, "del_childs": True}))
    out.append(("phases.one", {"op": "set_sys_phases", "phases": {"only": 1.0}}))
    out.append(("phases.reserved", {"op": "set_sys_phases", "phases": {"N/A": 1.0, "x": 2.0}}))
    out.append(("phases.nondict", {"op": "set_sys_phases", "phases": rng.choice([["a", "b"], "ab", 5, None])}))
    out.append(("compphases.bad_type", {"op": "set_comp_phases", "name": rng.choice(names), "conf": rng.choice([5, "tx", None, ("a",)])}))
    sl = [n for n in names if kinds[n] in ("RLoss", "VLoss")]
    if sl:
        out.append(("compphases.on_loss", {"op": "set_comp_phases", "name": rng.choice(sl), "conf": ["a"]}))
    return out


def benign_conf_op(rng, L):
    names, kinds = L["names"], L["kinds"]
    if rng.random() < 0.4 or not L["phases"]:
        ph = rng.sample(["run", "nap", "tx", "rx"], rng.randint(2, 4))
        return {"op": "set_sys_phases", "phases": {p: float(rng.randint(1, 100)) for p in ph}}
    n = rng.choice(names)
    phs = list(L["phases"])
    sub = [p for p in phs if rng.random() < 0.6]
    k = kinds[n]
    if k == "PLoad":
        conf = {p: 0.05 for p in sub}
    elif k == "ILoad":
        conf = {p: 0.01 for p in sub}
    elif k == "RLoad":
        conf = {p: 500.0 for p in sub}
    else:
        conf = sub
    return {"op": "set_comp_phases", "name": n, "conf": conf}


def run(ctx, case):
    ns = loader.load()
    rng = random.Random(case["seed"])
    st_rng = random.Random(case["seed"] + 1)
    wops = hist.warmup_ops(random.Random(case["seed"] + 2))
    start = wops[0][1]
    subject = ns.System("hist", hist.make(ns, start))
    twin = ns.System("hist", hist.make(ns, start))
    for w in wops[1:]:
        for s_ in (subject, twin):
            st, e = hist.apply(s_, w, ns)
            if st != "ok":
                raise RuntimeError("warm-up op rejected: %s %s" % (w, H.exc_sig(e)))
    if case.get("twin_is_copy"):
        twin = copy.deepcopy(subject)  # the reference system is a deep copy taken before any call is rejected
        ctx.count("history", "twin = copy.deepcopy(subject)")
    start = {"warmup": wops[1:], "source": start}
    classes = set()
    nrej = 0
    queue = []
    history = []
    o2 = prev = None
    rejected_names = []
    follow_up = []
    every = case.get("observe_every", 1)
    twin_dirty, burst = False, []
    with H.tmpdir() as d:
        prev = hist.observe(subject, d)
        for k in range(case["n_ops"]):
            L = hist.live(subject)
            r = rng.random()
            cls = "random"
            if r < 0.45:
                if not queue:
                    queue = rejection_ops(st_rng, L)
                    st_rng.shuffle(queue)
                cls, op = queue.pop()
                # the op was built for an earlier state; rebuild if its names went away
                if cls.startswith("unknown."):
                    tgt = op.get("name") if op["op"] != "add_comp" else op.get("parent")
                    if tgt in L["names"] or tgt in L["rails"].values():
                        queue = []  # the "unknown" name has come into use meanwhile
                        continue
                elif any(isinstance(v, str) and v not in L["names"] and v not in L["rails"].values() and v != "nope"
                         for v in [op.get("name")] if v is not None):
                    queue = []
                    continue
            elif r < 0.6:
                op = benign_conf_op(rng, L)
                cls = "conf"
            else:
                op = hist.random_op(rng, L)
                if follow_up and follow_up[0] in L["names"] and L["kinds"][follow_up[0]] not in ("PLoad", "ILoad", "RLoad"):
                    # right after a retried name came into use: a call that RESOLVES that name (as a parent)
                    free_ = [n for n in hist.NAME_POOL + ["Y%d" % q for q in range(1, 40)] if n not in L["names"] and n not in L["rails"].values()]
                    op = {"op": "add_comp", "parent": follow_up.pop(0), "comp": hist.comp_entry(rng, "ILoad", rng.choice(free_))}
                elif op["op"] == "add_comp" and rejected_names and rng.random() < 0.4:
                    # a retry under a name / rail that an earlier REJECTED call wanted to use (it is still free)
                    nm = rng.choice(rejected_names)
                    if nm not in L["names"] and nm not in L["rails"].values():
                        if rng.random() < 0.5:
                            op["comp"]["name"] = nm
                            follow_up[:] = [nm]
                        elif L["kinds"].get(op["parent"] if isinstance(op["parent"], str) else "", "") and op["comp"]["kind"] not in ("PLoad", "ILoad", "RLoad"):
                            op["rail"] = nm
            s1, e1 = hist.apply(subject, op, ns)
            history.append({"op": op, "class": cls, "outcome": "accepted" if s1 == "ok" else H.exc_sig(e1)})
            if s1 == "ok":
                s2, e2 = hist.apply(twin, op, ns)
                ok = s2 == "ok"
                ctx.check("accepted.same_on_twin", ok, {"op": op, "twin_outcome": "accepted" if ok else H.exc_sig(e2),
                                                        "history": history[-8:], "start": start,
                                                        "why": "a call accepted after rejected calls must also be accepted by a system that never saw them"})
                if not ok:
                    break
                ctx.count("accepted", hist.op_sig(op))
            else:
                nrej += 1
                classes.add(cls)
                ctx.count("rejected_class", cls)
                ctx.count("rejected_exception", type(e1).__name__)
                for nm in ((op.get("comp") or {}).get("name"), op.get("rail"), op.get("name"), op.get("parent")):
                    if isinstance(nm, str) and nm and nm not in L["names"] and nm not in L["rails"].values() and nm != "nope":
                        rejected_names.append(nm)
                # would a system that never saw the rejected calls have refused this call too?  (probed on a COPY of the
                # twin, so that the twin itself keeps seeing accepted calls only)
                probe = copy.deepcopy(twin)
                sp_, ep_ = hist.apply(probe, op, ns)
                if sp_ == "ok":
                    ctx.check("rejected.state_unchanged", False,
                              {"refused_call": op, "class": cls, "exception": H.exc_sig(e1),
                               "why": "the same call is accepted by a system that went through the same accepted calls but never saw the rejected ones",
                               "rejected_calls_so_far": [h for h in history if h["outcome"] != "accepted"][-6:], "start": start,
                               "kind": "later_call_refused/" + op["op"]})
                    break
            twin_dirty = twin_dirty or s1 == "ok"
            burst.append(k)
            if every > 1 and (k + 1) % every != 0 and k != case["n_ops"] - 1:
                # burst mode: no report is requested between calls (a report may itself repair what a rejected call
                # left half-done); the comparison with the twin follows at the end of the burst
                prev = None
                continue
            o1 = hist.observe(subject, d)
            if twin_dirty or o2 is None:
                o2 = hist.observe(twin, d)  # the twin only changes when it received a call
                twin_dirty = False
            single = len(burst) == 1
            burst = []
            if s1 != "ok" and prev is not None and single:
                # a rejected call: the SAME object before and after, compared exactly (order included)
                diff = hist.obs_diff(prev, o1)
            else:
                diff = []
            # subject vs twin (two objects): compared modulo row / sibling order - which node index a new component
            # receives after a del_comp() with several descendants is not a function of the call history (hist.canon)
            tdiff = hist.obs_diff(hist.canon(o2), hist.canon(o1), rel=1e-9)
            prev = o1
            if s1 != "ok":
                diff = diff or tdiff
            else:
                diff = tdiff
            if s1 != "ok":
                last_rej = history[-1]
                ok = not diff
                ctx.check("rejected.state_unchanged", ok,
                          {"rejected_call": op, "class": cls, "exception": H.exc_sig(e1), "observables_changed": [x[0] for x in diff],
                           "first_difference(before/twin, after/subject)": diff[:2], "history": [h["op"] for h in history[-6:]],
                           "start": start, "registries": hist.registries_consistent(subject),
                           "kind": "%s/%s" % (op["op"], cls)})
                if not ok:
                    break
            elif diff:
                # an accepted call produced different observables on subject and twin: an earlier rejected call left a
                # trace.  (Compared modulo row / sibling order: which node index a new component receives after a
                # del_comp() with several descendants is not a function of the call history - see hist.canon.)
                ctx.check("rejected.state_unchanged", False,
                          {"after_accepted_call": op, "observables_differ": [x[0] for x in diff], "first_difference(twin, subject)": diff[:2],
                           "rejected_calls_so_far": [h for h in history if h["outcome"] != "accepted"][-5:], "start": start,
                           "kind": "later_call/" + op["op"]})
                break
            if hist.registries_consistent(subject):
                ctx.count("diagnostic", "registries disagree with graph (no observable difference yet)")
    if nrej >= 10 and len(classes) >= 5:
        ctx.nontrivial(case["seed"])
    ctx.sample({"start": start, "history": history[:8], "rejected": nrej, "classes": sorted(classes)})
