"""C09 - a Warnings cell names exactly the applicable limits whose reported quantity is outside [min,max]."""

import copy
import math

from .. import gen as G, harness as H, model as M, spec as S
from . import _rows

PROP = "C09"
LEVEL = "exploration"
ANCHORS = ["_get_warns", "_solv_get_warns", "_get_limits", "_check_limits", "System.limits", "_filt_lim"]  # functions whose reached lines are reported in the evidence
RULE = (
    "two-pass cases: a random SystemSpec is solved once without limits, then every limit is chosen relative to "
    "the value the component actually reports - well inside, well outside, one ulp either side of the value, "
    "exactly equal (no warning expected), lower bounds > 0, negative-signed entries, keys not applicable to the "
    "kind - and the system is solved again. The oracle recomputes each cell from the REPORTED row "
    "(vd=|vi|-|vo|, po=pi-pl, magnitude comparison except tp) with the documented applicability table and "
    "defaults, demands empty cells for unlisted phases, and recomputes the Subsystem / System total roll-up; "
    "limits() must show exactly the configured non-default limits. Non-trivial = >=4 components carry limits and "
    "both a warning and a non-warning boundary case occurred; distinct = canonical spec hash (with limits)"
)
REQUIRED = ["warn.cell", "warn.boundary_equal", "warn.boundary_ulp", "warn.unlisted_phase_empty", "warn.subsystem",
            "warn.total", "warn.limits_report", "warn.default_limit_exceeded"]
SIZES = {"quick": 170, "thorough": 1300}
ASSUMPTIONS = ["quantities are the reported cells of the same row (so exact-boundary cases are decidable)",
               "rectifiers are not given phase configurations (the property does not say whether they mute warnings)"]

APPLICABLE = {
    "Source": ["io", "po", "pl"], "PLoad": ["vi", "ii", "tr", "tp"], "ILoad": ["vi", "pi", "tr", "tp"],
    "RLoad": ["vi", "ii", "pi", "tr", "tp"], "Converter": ["vi", "vo", "ii", "io", "pi", "po", "pl", "tr", "tp"],
}
ALL = ["vi", "vo", "vd", "ii", "io", "pi", "po", "pl", "tr", "tp"]
DEFAULTS = {k: [0.0, 1.0e6] for k in ALL}
DEFAULTS["tp"] = [-1.0e6, 1.0e6]
MUTED_KINDS = ("Converter", "LinReg", "PSwitch", "PMux", "PLoad", "ILoad", "RLoad")


def applicable(kind):
    return APPLICABLE.get(kind, ALL)


def quantities(kind, r, ta, rt=0.0):
    C = M.COLS
    vi, vo, ii, io, P, L = r[C["vin"]], r[C["vout"]], r[C["iin"]], r[C["iout"]], r[C["p"]], r[C["l"]]
    tr, tp = r.get(C["tr"]), r.get(C["tp"])
    if not M.num(tr):
        # the temperature columns are hidden when no rise is > 0; the quantities are then recomputed with the same
        # expression (a loss-less element may carry a loss of -1e-8 W, i.e. a tiny NEGATIVE rise)
        tr = abs(rt) * ((P + L) if kind in ("PLoad", "ILoad", "RLoad") else L)
        tp = ta + tr
    q = {"vi": vi, "vo": vo, "vd": abs(vi) - abs(vo), "ii": ii, "io": io, "pi": P, "po": P - L, "pl": L,
         "tr": tr, "tp": tp}
    if kind == "Source":
        q["tr"], q["tp"] = 0.0, 0.0
    return q


def expected_tokens(kind, limits, q):
    out = set()
    for k in applicable(kind):
        lo, hi = (limits or {}).get(k, DEFAULTS[k])
        v = q[k]
        if k == "tp":
            if v > hi or v < lo:
                out.add(k)
        elif abs(v) > abs(hi) or abs(v) < abs(lo):
            out.add(k)
    return out


def gen(rng, i, tier):
    big = tier == "thorough"
    spec = G.gen_system(
        rng, n_comp=(3, 22 if big else 12), n_src=(1, 3) if rng.random() < 0.4 else (1, 1), mux=0.35,
        polarity=rng.choice(["pos", "neg", "any"]), regime="benign", tables=rng.choice([0.0, 0.3]), phases=0.45,
        max_depth=rng.choice([3, 5]), dead=rng.choice([0.0, 0.2]), phase_conf=0.5, rt=0.6, loss_flag=0.3,
        groups=0.2, rails=rng.choice([0.0, 0.3]),
    )
    if rng.random() < 0.2:
        # megawatt-class systems: reported quantities exceed the DEFAULT limits (1e6), so components without any
        # configured limit must warn too
        spec = G.scale_currents(spec, 10 ** rng.uniform(4, 7))
    return {"spec": spec, "lseed": rng.randrange(1 << 30), "ta": rng.choice([25.0, -10.0, 85.0]),
            "history": rng.choice(_rows.HISTORIES), "hseed": rng.randrange(1 << 30)}


def directed():
    return []


def choose_limits(rng, spec, df, ta):
    """Second pass: limits relative to the values the first solve reported. Returns (spec', plan)."""
    out = copy.deepcopy(spec)
    _, per, _ = M.split_table(df)
    phases = list(per.keys())
    plan = {}
    for c in out["comps"]:
        if rng.random() < 0.25:
            continue
        rows = [per[p]["rows"].get(c["name"]) for p in phases]
        rows = [r for r in rows if r is not None and M.finite_row(r)]
        if not rows:
            continue
        r = rng.choice(rows)
        q = quantities(c["kind"], r, ta, c["args"].get("rt", 0.0))
        lim = {}
        keys = rng.sample(ALL, rng.randint(1, 5))
        for k in keys:
            v = q[k] if k == "tp" else abs(q[k])
            mode = rng.choice(["inside", "outside_hi", "outside_lo", "eq_hi", "eq_lo", "ulp_above_hi", "ulp_below_hi",
                               "ulp_lo", "neg_entries", "wide"])
            if k == "tp":
                span = abs(v) + 10.0
                lo, hi = v - span, v + span
                if mode == "outside_hi":
                    hi = v - 1.0
                elif mode == "outside_lo":
                    lo = v + 1.0
                elif mode == "eq_hi":
                    hi = v
                elif mode == "eq_lo":
                    lo = v
                elif mode == "ulp_above_hi":
                    hi = math.nextafter(v, -math.inf)
                elif mode == "ulp_below_hi":
                    hi = math.nextafter(v, math.inf)
                elif mode == "ulp_lo":
                    lo = math.nextafter(v, math.inf)
            else:
                lo, hi = 0.0, max(v * 10.0, 1.0)
                if mode == "inside":
                    lo, hi = v * 0.5, v * 2.0 + 1e-9
                elif mode == "outside_hi":
                    hi = v * 0.5
                elif mode == "outside_lo":
                    lo, hi = v * 2.0 + 1e-6, v * 10.0 + 1.0
                elif mode == "eq_hi":
                    hi = v
                elif mode == "eq_lo":
                    lo, hi = v, v * 3.0 + 1.0
                elif mode == "ulp_above_hi":
                    hi = math.nextafter(v, -math.inf) if v > 0 else 0.0
                elif mode == "ulp_below_hi":
                    hi = math.nextafter(v, math.inf)
                elif mode == "ulp_lo":
                    lo, hi = math.nextafter(v, math.inf), v * 3.0 + 1.0
                elif mode == "neg_entries":
                    lo, hi = -(v * 0.5), -(v * 2.0 + 1e-9)
            lim[k] = [lo, hi]
            plan.setdefault(c["name"], {})[k] = mode
        c["limits"] = lim
        if rng.random() < 0.3:
            c["via_toml"] = True  # the component (with its [limits] table) comes from a parameter file
    return out, plan


def run(ctx, case):
    import random

    rng = random.Random(case["lseed"])
    base = case["spec"]
    ta = case["ta"]
    for c in base["comps"]:
        if c["kind"] == "Rectifier":
            c["phase"] = None
    st, s0 = H.try_build(base)
    if st != "ok":
        raise RuntimeError("spec rejected: %s" % H.exc_sig(s0))
    st, df0 = H.solve(s0, ta=ta)
    ctx.count("outcome", "returned" if st == "ok" else type(df0).__name__)
    if st != "ok":
        return
    spec, plan = choose_limits(rng, base, df0, ta)
    spec, sysobj = _rows.build_with_history(ctx, spec, case.get("history", "fresh"), case.get("hseed", 0))
    st, df = H.solve(sysobj, ta=ta)
    if st != "ok":
        # the limit-carrying system was built through another history (other sibling order): in the solver's transient
        # regime (known findings F2 / F19) that alone can make the iteration trip a polarity guard - C03's and C16's
        # business; there is no table whose warnings could be judged
        ctx.count("outcome", "second solve raised: " + type(df).__name__)
        return
    order, per, _ = M.split_table(df)
    cm = S.comp_map(spec)
    C = M.COLS
    nsrc = sum(1 for c in spec["comps"] if c["kind"] == "Source")
    saw_warn = saw_quiet_boundary = False
    for ph in order:
        rows = per[ph]["rows"]
        if set(rows) != set(cm):
            ctx.check("warn.rows", False, {"phase": ph})
            return
        if not all(M.finite_row(r) for r in rows.values()):
            ctx.count("outcome", "non-finite table (skipped, C03)")
            return
        sup, sel = M.suppliers(spec, rows)
        dom = M.true_domain(spec, sup)
        warned = {}
        for c in spec["comps"]:
            n, k = c["name"], c["kind"]
            r = rows[n]
            got = set((r[C["warn"]] or "").split())
            beh = M.behaviour(c, ph)
            muted = k in MUTED_KINDS and bool(c.get("phase")) and not beh["listed"]
            det = {"row": n, "kind": k, "phase": ph, "limits": c.get("limits"), "reported": r[C["warn"]],
                   "values": M._rowvals(r), "plan": plan.get(n)}
            if muted:
                ctx.check("warn.unlisted_phase_empty", not got, det)
                warned[n] = bool(got)
                continue
            q = quantities(k, r, ta, c["args"].get("rt", 0.0))
            exp = expected_tokens(k, c.get("limits"), q)
            ctx.check("warn.cell", got == exp, dict(det, expected=sorted(exp), quantities=q))
            for key, mode in (plan.get(n) or {}).items():
                if key not in applicable(k):
                    ctx.check("warn.not_applicable_ignored", key not in got, dict(det, key=key))
                    continue
                if mode in ("eq_hi", "eq_lo"):
                    ctx.check("warn.boundary_equal", (key in got) == (key in exp), dict(det, key=key, mode=mode, quantity=q[key]))
                    if key not in exp:
                        saw_quiet_boundary = True
                elif mode.startswith("ulp"):
                    ctx.check("warn.boundary_ulp", (key in got) == (key in exp), dict(det, key=key, mode=mode, quantity=q[key]))
            warned[n] = bool(got)
            if got and not c.get("limits"):
                ctx.ev("warn.default_limit_exceeded")
            if got:
                saw_warn = True
                for t in got:
                    ctx.see("tokens", "%s:%s" % (k, t))
        # roll-up
        tot = per[ph]["total"]
        ctx.check("warn.total", tot is not None and (tot[C["warn"]] == "Yes") == any(warned.values()),
                  {"phase": ph, "reported": tot[C["warn"]] if tot else None, "any_component_warns": any(warned.values())})
        if nsrc > 1:
            for sname, sr in per[ph]["subs"].items():
                members = []
                for n in rows:
                    d = dom[n]
                    if d is None:  # below a mux without live input: booked under the first declared input
                        x = cm[n]
                        while dom[x["name"]] is None and x["parents"]:
                            x = cm[x["parents"][0]]
                        d = dom[x["name"]]
                    if d == sname:
                        members.append(n)
                exp = any(warned[m] for m in members)
                ctx.check("warn.subsystem", (sr[C["warn"]] == "Yes") == exp,
                          {"phase": ph, "source": sname, "reported": sr[C["warn"]], "members_warning": [m for m in members if warned[m]]})
    # limits() report shows exactly the configured non-default limits
    st, lr = H.call(sysobj.limits)
    if st == "ok":
        bad = []
        for r in lr.to_dict("records"):
            c = cm[r["Component"]]
            for k in ALL:
                col = [x for x in r if x.startswith(k + " ")][0]
                conf = (c.get("limits") or {}).get(k)
                want = conf if (conf is not None and conf != DEFAULTS[k]) else ""
                if r[col] != want:
                    bad.append((r["Component"], k, r[col], want))
        ctx.check("warn.limits_report", not bad, {"differences": bad[:6]})
    else:
        ctx.check("warn.limits_report", False, {"exception": H.exc_sig(lr)})
    _rows.observe(ctx, spec)
    if len(plan) >= 4 and saw_warn and saw_quiet_boundary:
        ctx.nontrivial(S.canonical(spec))
    ctx.sample({"spec": _rows.short(spec), "limits": {c["name"]: c.get("limits") for c in spec["comps"] if c.get("limits")},
                "plan": plan})
