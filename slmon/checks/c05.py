"""C05 - a PMux feeds from exactly the first live input, and the table says so."""

import itertools

from .. import gen as G, harness as H, loader, model as M, spec as S
from . import _rows

PROP = "C05"
LEVEL = "exploration"
ANCHORS = ["PMux.", "_child_curr", "_find_domain", "System.solve", "_get_parents"]  # functions whose reached lines are reported in the evidence
RULE = (
    "cases = mux layouts with 1-4 inputs; for every layout ALL 2^k live/dead patterns are enumerated, a dead "
    "input being realised as a 0 V source, a phase-inactive source or a phase-inactive converter/regulator/switch "
    "upstream; inputs sit directly on sources or below RLoss/Converter/LinReg/PSwitch, on different sources or "
    "the same one, are addressed by component or by rail name, carry other consumers; scalar and per-input rs. "
    "Per phase the oracle derives the first live declared input from the input rows and demands: reported "
    "parent/rail-in, Vin and Domain are that input's; Vout = Vin -/+ rs[selected]*Iout; only the selected input's "
    "Iout contains the mux current; no live input => mux and subtree all-zero. Non-trivial = >=2 inputs and the "
    "selected input is not the first declared, or no input is live; distinct = (layout hash, pattern)"
)
REQUIRED = ["mux.parent_label", "mux.vin", "mux.domain", "mux.vout", "mux.iin", "mux.input_current", "mux.dead",
            "mux.selected_not_first"]
SIZES = {"quick": 500, "thorough": 3000}
ASSUMPTIONS = ["an input is 'live' iff its reported output voltage is non-zero"]


def _c(name, kind, args, parents, **kw):
    d = {"name": name, "kind": kind, "args": args, "parents": parents, "group": "", "rail": "", "limits": None,
         "phase": None, "via_rail": [False] * len(parents)}
    d.update(kw)
    return d


def layout(rng, k=None):
    """A mux layout description (independent of the live/dead pattern)."""
    k = k or rng.choice([1, 2, 2, 3, 3, 4])
    nsrc = rng.randint(1, min(3, k)) if rng.random() < 0.7 else k
    phases = rng.random() < 0.6
    neg = rng.random() < 0.2
    inputs = []
    used_direct = set()
    for i in range(k):
        s = rng.randrange(nsrc) if i >= nsrc else i
        chain = []
        direct = rng.random() < 0.4 and s not in used_direct
        if direct:
            used_direct.add(s)
        else:
            for _ in range(rng.choice([1, 1, 2])):
                chain.append(rng.choice(["RLoss", "Converter", "LinReg", "PSwitch"]))
        inputs.append({"src": s, "chain": chain})
    return {"k": k, "nsrc": nsrc, "phases": phases, "neg": neg, "inputs": inputs,
            "list_rs": rng.random() < 0.6, "rails": rng.random() < 0.5, "extra": [rng.random() < 0.5 for _ in range(k)],
            "ig_table": rng.choice([None, None, "1d", "2d", "2d"]),
            "seed": rng.randrange(1 << 30)}


def realise(lay, pattern):
    """Build the spec for a layout and a live(1)/dead(0) pattern."""
    import random

    rng = random.Random(lay["seed"])  # numbers: independent of the pattern (so patterns differ only in deadness)
    prng = random.Random(lay["seed"] + 7919 * (1 + sum(b << i for i, b in enumerate(pattern))))  # pattern-specific choices
    sgn = -1 if lay["neg"] else 1
    phases = {"run": 10.0, "nap": 200, "tx": 0.5} if lay["phases"] else {}
    comps, how = [], []
    volt = {}
    for s in range(lay["nsrc"]):
        v = G.sig(sgn * rng.uniform(4.0, 24.0))
        volt["S%d" % s] = v
        comps.append(_c("S%d" % s, "Source", {"vo": v, "rs": G.sig(rng.uniform(0, 0.05)) if sgn > 0 else 0.0}, []))
    src_dead = {}
    in_names = []
    for i, inp in enumerate(lay["inputs"]):
        sname = "S%d" % inp["src"]
        par = sname
        vnow = abs(volt[sname])
        last_switchable = None
        chain_ = list(inp["chain"])
        force_starved = bool(lay.get("starve_first")) and i == 0
        if force_starved:
            chain_ = chain_[:-1] + ["LinReg"]  # the first (highest-priority) input ends in a starved regulator
        for j, kind in enumerate(chain_):
            n = "I%d_%d" % (i, j)
            starved = False
            if kind == "RLoss":
                a = {"rs": G.sig(rng.uniform(0.0, 0.2))}
            elif kind == "Converter":
                vnow = G.sig(vnow * rng.uniform(0.4, 1.5))
                a = {"vo": sgn * vnow, "eff": G.sig(rng.uniform(0.7, 0.95), 3), "iis": 1e-5}
                last_switchable = n
            elif kind == "LinReg":
                r_ = rng.random()
                if force_starved and j == len(chain_) - 1:
                    r_ = 0.0
                if r_ < 0.12:
                    # a regulator whose dropout exceeds its input: it is "on" but delivers exactly 0 V - a DEAD input
                    vd = G.sig(vnow * rng.uniform(1.05, 1.6))
                    a = {"vo": sgn * G.sig(vd * rng.uniform(1.2, 2.0)), "vdrop": vd, "iis": 2e-6}
                    starved = True
                elif r_ < 0.4:
                    # a regulator in DROPOUT (|vi| - vdrop < |vo|): its output follows the input - a live input all the same
                    vd = G.sig(vnow * rng.uniform(0.02, 0.3))
                    a = {"vo": sgn * G.sig(vnow * rng.uniform(0.95, 1.4)), "vdrop": vd, "iis": 2e-6}
                    vnow = vnow - vd
                else:
                    vnow = G.sig(vnow * rng.uniform(0.5, 0.9))
                    a = {"vo": sgn * vnow, "vdrop": 0.1, "iis": 2e-6}
                last_switchable = n
            else:
                a = {"rs": G.sig(rng.uniform(0.0, 0.1)), "iis": 3e-6}
                last_switchable = n
            comps.append(_c(n, kind, a, [par]))
            par = n
            if starved:
                break  # the starved regulator itself is the mux input
        in_names.append(par)
        if not pattern[i]:
            shared = sum(1 for q in lay["inputs"] if q["src"] == inp["src"]) > 1
            opts = []
            if not shared:
                opts.append("zero_source")
                if phases:
                    opts.append("source_inactive")
            if last_switchable and phases:
                opts += ["element_inactive", "element_inactive"]
            if not opts:
                opts = ["zero_source"]  # a shared source dies for all its inputs; the oracle reads the real pattern
            h = prng.choice(opts)
            how.append(h)
            if h == "zero_source":
                src_dead[sname] = "zero"
            elif h == "source_inactive":
                src_dead[sname] = "inactive"
            else:
                for c in comps:
                    if c["name"] == last_switchable:
                        c["phase"] = ["ghost"] if prng.random() < 0.5 else [prng.choice(list(phases))]
        else:
            how.append("live")
    for c in comps:
        if c["kind"] == "Source" and c["name"] in src_dead:
            if src_dead[c["name"]] == "zero":
                c["args"]["vo"] = 0.0
            else:
                c["phase"] = ["ghost"] if prng.random() < 0.5 else [prng.choice(list(phases))]
    k = lay["k"]
    rs = [G.sig(rng.uniform(0.01, 0.5)) for _ in range(k + rng.choice([0, 0, 1]))] if lay["list_rs"] else G.sig(
        rng.uniform(0.0, 0.3))
    igc = G.sig(rng.uniform(0, 1e-4))
    if lay.get("ig_table"):
        # tabulated ground current that varies strongly with the (selected) input voltage
        vmax = max(abs(v) for v in volt.values()) or 5.0
        vis = [G.sig(vmax * f) for f in (0.15, 0.5, 1.1)]
        ios = [0.001, 0.05, 1.0]
        igc = {"vi": vis if lay["ig_table"] == "2d" else [vis[1]], "io": ios,
               "ig": [[G.sig(1e-5 * (1 + 9 * j) * (1 + i), 4) for i in range(3)] for j in range(3 if lay["ig_table"] == "2d" else 1)]}
    margs = {"rs": rs, "ig": igc, "iis": 4e-6, "rt": 20.0}
    mux = _c("MUX", "PMux", margs, list(in_names))
    if phases and rng.random() < 0.3:
        mux["phase"] = [p for p in phases if rng.random() < 0.7] or ["ghost"]
    if lay["rails"]:
        for c in comps:
            if c["name"] in in_names and rng.random() < 0.8:
                c["rail"] = "R_" + c["name"]
        mux["rail"] = "R_MUX"
        cm = {c["name"]: c for c in comps}
        mux["via_rail"] = [bool(cm[p]["rail"]) and rng.random() < 0.6 for p in in_names]
    comps.append(mux)
    ii_, more_, pw_ = G.sig(rng.uniform(0.01, 0.5)), rng.random() < 0.6, G.sig(rng.uniform(0.01, 0.3))
    if not lay.get("leaf_mux"):
        comps.append(_c("ML1", "ILoad", {"ii": ii_}, ["MUX"]))
        if more_:
            comps.append(_c("MC", "Converter", {"vo": 1.8, "eff": 0.85}, ["MUX"]))
            comps.append(_c("ML2", "PLoad", {"pwr": pw_}, ["MC"]))
    for i, e in enumerate(lay["extra"]):
        if e:
            comps.append(_c("X%d" % i, "RLoad", {"rs": G.sig(rng.uniform(50, 500))}, [in_names[i]]))
    # a sibling branch on the first source, emitted after the mux subtree
    comps.append(_c("SIB", "ILoad", {"ii": 0.01}, ["S0"]))
    return {"name": "mux", "comps": comps, "phases": phases, "_meta": {"pattern": list(pattern), "how": how}}


_state = {"queue": [], "layouts": 0}


def gen(rng, i, tier):
    if not _state["queue"]:
        lay = layout(rng)
        _state["layouts"] += 1
        # every sixth layout: NOTHING is connected to the mux output (a mux that is a leaf still selects its input,
        # draws its ground current from it and names it as parent / rail-in)
        lay["leaf_mux"] = _state["layouts"] % 6 == 5
        # every fifth layout with two or more inputs: the FIRST input is a regulator whose dropout exceeds its supply
        # ("on", but delivering exactly 0 V) - the mux must run from a later input
        lay["starve_first"] = _state["layouts"] % 5 == 1 and lay["k"] >= 2
        pats = [list(p) for p in itertools.product([1, 0], repeat=lay["k"])]
        for pat in pats:
            case = {"layout": lay, "pattern": pat}
            if rng.random() < 0.35:
                case["from_pattern"] = rng.choice(pats)
            elif lay["k"] >= 2 and rng.random() < 0.3:
                case["reprioritised"] = rng.randrange(1, lay["k"])  # the mux is first wired with rotated input order
            elif rng.random() < 0.25:
                case["relinked"] = rng.randrange(lay["k"])  # one input first reaches the mux through an extra element
            _state["queue"].append(case)
    return _state["queue"].pop(0)


def cases_of(lay):
    return [{"layout": lay, "pattern": list(p)} for p in itertools.product([1, 0], repeat=lay["k"])]


def directed():
    # mux directly on two sources, second selected; and a mux on a rail
    lay = {"k": 2, "nsrc": 2, "phases": False, "neg": False, "inputs": [{"src": 0, "chain": []}, {"src": 1, "chain": []}],
           "list_rs": True, "rails": False, "extra": [True, True], "seed": 11}
    lay2 = dict(lay, rails=True, seed=12, inputs=[{"src": 0, "chain": ["PSwitch"]}, {"src": 1, "chain": ["Converter"]}])
    return cases_of(lay) + cases_of(lay2)


def run(ctx, case):
    lay, pat = case["layout"], case["pattern"]
    spec = realise(lay, pat)
    prev = case.get("from_pattern")
    if prev is not None and prev != pat:
        # the system is first built and ANALYSED with another live/dead pattern, then edited into this one
        ns = loader.load()
        spec_a = realise(lay, prev)
        st, sysobj = H.try_build(spec_a)
        if st != "ok":
            raise RuntimeError("layout rejected by the public API: %s" % H.exc_sig(sysobj))
        with H.quiet():
            H.solve(sysobj)
            H.call(sysobj.rail_rep)
        ca = S.comp_map(spec_a)
        for c in spec["comps"]:
            a = ca[c["name"]]
            if a["args"] != c["args"]:
                sysobj.change_comp(c["name"], comp=S.make_comp(ns, c), group=c.get("group", ""), rail=c.get("rail", ""))
                if c.get("phase") is not None:
                    sysobj.set_comp_phases(c["name"], c["phase"])
            elif a.get("phase") != c.get("phase"):
                sysobj.set_comp_phases(c["name"], c["phase"] if c.get("phase") is not None else [])
        ctx.count("history", "pattern edited on an analysed system")
    elif case.get("relinked") is not None:
        # one mux input first passes through an extra series element; the system is analysed; the element is removed
        # with del_childs=False, which re-links the mux to the real input (same priority position)
        import copy

        k = case["relinked"]
        spec_a = copy.deepcopy(spec)
        ma = S.comp_map(spec_a)["MUX"]
        real = ma["parents"][k]
        extra = _c("~link", "RLoss", {"rs": 0.05}, [real])
        pos = spec_a["comps"].index(ma)
        spec_a["comps"].insert(pos, extra)
        ma["parents"][k] = "~link"
        if ma.get("via_rail"):
            ma["via_rail"][k] = False
        st, sysobj = H.try_build(spec_a)
        if st != "ok":
            raise RuntimeError("layout rejected by the public API: %s" % H.exc_sig(sysobj))
        with H.quiet():
            H.solve(sysobj)
        sysobj.del_comp("~link", del_childs=False)
        ctx.count("history", "mux input re-linked by deleting an intermediate element (del_childs=False)")
    elif case.get("reprioritised"):
        # the mux is first connected with its inputs in another (rotated) priority order; the system is analysed; the
        # mux is deleted with its subtree and re-added with the real order (the only way to change priorities), the
        # same subtree below it - node indices and edge set end up the same, only the declared input order differs
        import copy

        ns = loader.load()
        k = case["reprioritised"]
        spec_a = copy.deepcopy(spec)
        ma = S.comp_map(spec_a)["MUX"]
        ma["parents"] = ma["parents"][k:] + ma["parents"][:k]
        if ma.get("via_rail"):
            ma["via_rail"] = ma["via_rail"][k:] + ma["via_rail"][:k]
        st, sysobj = H.try_build(spec_a)
        if st != "ok":
            raise RuntimeError("layout rejected by the public API: %s" % H.exc_sig(sysobj))
        with H.quiet():
            H.solve(sysobj)
            H.call(sysobj.rail_rep)
        sysobj.del_comp("MUX")
        below = set(["MUX"])
        for c in spec["comps"]:
            if c["name"] == "MUX" or any(p in below for p in c["parents"]):
                below.add(c["name"])
                S.add_one(sysobj, spec, c, ns)
                if c.get("phase") is not None:
                    sysobj.set_comp_phases(c["name"], copy.deepcopy(c["phase"]))
        ctx.count("history", "mux re-added with another input priority on an analysed system")
    else:
        st, sysobj = H.try_build(spec)
        if st != "ok":
            raise RuntimeError("layout rejected by the public API: %s" % H.exc_sig(sysobj))
        ctx.count("history", "fresh")
    if lay["seed"] % 2:
        with H.quiet():
            _rows.decoys(spec, lay["seed"])  # other muxes / regulators ... constructed meanwhile (class-level state)
        ctx.count("history", "decoy components constructed before the solve")
    st, df = H.solve(sysobj)
    ctx.count("outcome", "returned" if st == "ok" else type(df).__name__)
    if st != "ok":
        return
    tol = M.Tol()
    order, per, _ = M.split_table(df)
    cm = S.comp_map(spec)
    mux = cm["MUX"]
    multi = "Domain" in df.columns
    nontriv = False
    for ph in order:
        rows = per[ph]["rows"]
        col = H.Collect()
        info = M.check_phase(col, spec, rows, ph, tol, 25.0)
        if info.get("skipped"):
            ctx.check("mux.table_complete", False, {"phase": ph, "failed": [c for c, _ in col.failed]})
            continue
        if info.get("polarity_lost"):
            continue
        sup, sel = info["sup"], info["sel"]
        k = sel["MUX"]
        r = rows["MUX"]
        dom = M.true_domain(spec, sup)
        det = {"phase": ph, "pattern": pat, "how": spec["_meta"]["how"], "selected_index": k,
               "inputs": mux["parents"], "input_vouts": [rows[p][M.COLS["vout"]] for p in mux["parents"]],
               "mux_row": {c: r.get(c) for c in ("Parent", "Rail in", "Domain", "Vin (V)", "Vout (V)", "Iin (A)", "Iout (A)")},
               "n_inputs": len(mux["parents"])}
        failed = {}
        for cl, d in col.failed:
            failed.setdefault((cl, d.get("row")), d)
        # reported parent / rail-in
        if k >= 0:
            ctx.check("mux.parent_label", ("label.parent_mux", "MUX") not in failed,
                      dict(det, **_pick(failed.get(("label.parent_mux", "MUX")), ("column", "expected", "got"))))
            ctx.check("mux.vin", ("link.vin", "MUX") not in failed, dict(det, expected_vin=rows[mux["parents"][k]][M.COLS["vout"]]))
            if multi:
                ctx.check("mux.domain", r.get("Domain") == dom["MUX"], dict(det, expected_domain=dom["MUX"]))
                # everything below the mux shares its domain
                below_bad = [n for n in ("ML1", "MC", "ML2") if n in rows and rows[n].get("Domain") != dom["MUX"]]
                ctx.check("mux.domain_subtree", not below_bad, dict(det, expected_domain=dom["MUX"], rows=below_bad))
            if M.behaviour(mux, ph)["active"]:
                ctx.check("mux.vout", ("law.vout", "MUX") not in failed, dict(det, **_pick(failed.get(("law.vout", "MUX")), ("expected", "tol")), rs=mux["args"]["rs"]))
                ctx.check("mux.iin", ("law.iin", "MUX") not in failed, dict(det, **_pick(failed.get(("law.iin", "MUX")), ("expected", "tol"))))
            else:
                ctx.check("mux.sleep", ("dead.sleep", "MUX") not in failed, det)
            if k > 0:
                ctx.ev("mux.selected_not_first")
        else:
            dead_rows = ["MUX"] + [n for n in ("ML1", "MC", "ML2") if n in rows]
            bad = [n for n in dead_rows if any(rows[n][M.COLS[c]] != 0.0 for c in ("vin", "vout", "iin", "iout", "p", "l"))]
            ctx.check("mux.dead", not bad, dict(det, not_quiescent=bad))
        # current attribution: every input's Iout = sum of what actually draws from it
        for j, p in enumerate(mux["parents"]):
            bad = ("link.iout", p) in failed or ("link.iout_source", p) in failed
            ctx.check("mux.input_current", not bad, dict(det, input=p, input_index=j, selected=(j == k),
                                                        **_pick(failed.get(("link.iout", p)) or failed.get(("link.iout_source", p)),
                                                                ("children_iin_sum", "values"))))
        ctx.see("patterns", "k%d:%s->sel%d" % (len(pat), "".join(map(str, pat)), k))
        if len(mux["parents"]) >= 2 and (k > 0 or k < 0):
            nontriv = True
    for h in spec["_meta"]["how"]:
        ctx.see("dead_realisation", h)
    ctx.see("input_kinds", ",".join(sorted(set(cm[p]["kind"] for p in mux["parents"]))))
    if nontriv:
        ctx.nontrivial([lay, pat])
    ctx.sample({"pattern": pat, "how": spec["_meta"]["how"], "spec": _rows.short(spec)})


def _pick(d, keys):
    if not d:
        return {}
    return {k: d[k] for k in keys if k in d}
