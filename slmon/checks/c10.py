"""C10 - tabulated parameters: exact on the grid, linear along grid lines, inside the corner range of the
enclosing cell, clamped to the nearest edge outside, never NaN, sign of the lookup arguments ignored."""

import bisect
import math

from .. import gen as G, harness as H, loader, model as M, spec as S

PROP = "C10"
LEVEL = "exploration"
ANCHORS = ["_Interp", "_check_interp", "__init__"]  # functions whose reached lines are reported in the evidence
RULE = (
    "cases = (kind, parameter) in {Converter.eff, VLoss.vdrop, Rectifier.vdrop, LinReg.ig, PSwitch.ig, PMux.ig, "
    "Rectifier.ig} x random well-conditioned tables (1-D with 1-8 points; 2-D 2-6 x 2-8, log-spaced / anisotropic "
    "axes, first io = 0 or not, steps >= 1e-4 of the largest coordinate) x ~40 query points each (grid nodes, "
    "grid lines, cell interiors, outside in all 8 directions by factors up to 10, both polarities), evaluated "
    "through a Source(V, rs=0) - X - ILoad(I) probe system. Monitors: the value returned by the wrapped "
    "_interp call and the parameter recovered from the solve() table are compared with an independent oracle "
    "(node: tabulated value; grid line: 1-D linear; cell: corner range; outside: value at the nearest-edge "
    "projection); a constant table must give the same solve() table as the constant. Non-trivial = table with "
    ">= 2 io points queried at >= 20 points incl. outside points; distinct = (kind, parameter, table hash)"
)
REQUIRED = ["interp.node", "interp.gridline", "interp.cell_range", "interp.clamp", "interp.not_nan", "interp.sign",
            "interp.1d", "table.recovered", "table.constant_equals_scalar", "table.own_table_in_shared_system"]
SIZES = {"quick": 70, "thorough": 450}
ASSUMPTIONS = ["2-D tables with a single io column are excluded (Qhull cannot triangulate collinear points)",
               "vertex / grid-line values are compared to 1e-9 relative (barycentric interpolation rounding)"]

TARGETS = [("Converter", "eff"), ("VLoss", "vdrop"), ("Rectifier", "vdrop"), ("LinReg", "ig"), ("PSwitch", "ig"),
           ("PMux", "ig"), ("Rectifier", "ig")]

_log = {"calls": [], "on": False}


def setup(ctx):
    ns = loader.load()
    for cls in (ns.comps._Interp1d, ns.comps._Interp2d):
        if getattr(cls._interp, "_slmon", False):
            continue
        orig = cls._interp

        def wrapped(self, x, y, _orig=orig):
            r = _orig(self, x, y)
            if _log["on"]:
                _log["calls"].append((float(x), float(y), float(r)))
            return r

        wrapped._slmon = True
        cls._interp = wrapped


def axis(rng, n, lo, hi, zero_first=False, min_step=None):
    pts = set()
    min_step = max(min_step or 0.0, 1e-3 * hi)
    n = max(2 if n > 1 else 1, min(n, int((hi - lo) / (2.5 * min_step)) + 1))
    while len(pts) < n:
        if rng.random() < 0.5:
            pts.add(G.sig(math.exp(rng.uniform(math.log(lo), math.log(hi))), 5))
        else:
            pts.add(G.sig(rng.uniform(lo, hi), 5))
        # enforce minimal step: 1e-3 of the largest coordinate
        s = sorted(pts)
        ok = all(b - a >= min_step for a, b in zip(s, s[1:]))
        if not ok:
            pts.discard(s[-1] if rng.random() < 0.5 else s[0])
    s = sorted(pts)
    if zero_first and len(s) > 1 and s[1] >= min_step:
        s[0] = 0.0
    return s


# A well-conditioned table (found by search, about 1 in 28 000 of the generated class) for which Qhull places the
# clamped corner (io_max, vi_min) numerically OUTSIDE the triangulation: the lookup there only works through the
# "move the clamped point marginally inwards" fallback of the code (fix de7b913, finding F18).
NUDGE_WITNESS = {"vi": [5.2061, 4.4186, 4.3089, 3.9523], "io": [0.0, 1.1768, 1.9674, 2.5327, 2.5407, 4.9759, 5.2218, 6.1292],
                 "vdrop": [[0.4868, 0.7492, 0.7542, 0.4961, 0.3873, 0.5751, 0.5485, 0.3209],
                           [0.277, 0.614, 0.06452, 0.1836, 0.6616, 0.5612, 0.6806, 0.3735],
                           [0.2593, 0.05503, 0.5651, 0.4545, 0.5643, 0.3023, 0.2762, 0.6685],
                           [0.05127, 0.5477, 0.1755, 0.6306, 0.4813, 0.5744, 0.4883, 0.7443]]}


def gen(rng, i, tier):
    if i % 40 == 9:
        # (placed in the middle of the stream: by then the process has made many off-table lookups of other tables)
        import copy

        return {"kind": "Rectifier", "z": "vdrop", "table": copy.deepcopy(NUDGE_WITNESS), "qseed": rng.randrange(1 << 30), "const": False,
                "nq": 12, "axis_form": "desc_vi", "numtype": "float", "one_object": i % 80 == 9, "plot_first": False,
                "extra_queries": [[7.0, 3.0], [6.1292, 3.9523], [6.5, 3.9523], [6.1292, 2.0], [5.6755, 3.0]]}
    kind, z = TARGETS[i % len(TARGETS)] if rng.random() < 0.7 else rng.choice(TARGETS)
    one_d = rng.random() < 0.3
    nio = rng.randint(1, 8) if one_d else rng.randint(2, 8)
    imax = G.lu(rng, 0.01, 10.0)
    if one_d:
        vis = [G.lu(rng, 1.0, 48.0)]
        ios = axis(rng, nio, imax * rng.choice([1e-3, 1e-2, 0.1]), imax, zero_first=rng.random() < 0.3 and nio > 1)
    else:
        # the property's class of well-conditioned tables: every axis step >= 1e-4 of the LARGEST coordinate
        vmax = G.lu(rng, 3.0, 60.0)
        vis = axis(rng, rng.randint(2, 6), vmax * rng.choice([0.05, 0.2, 0.5]), vmax)
        imax = max(imax, 5e-3 * nio * vmax)
        ios = axis(rng, nio, imax * rng.choice([1e-2, 0.1, 0.3]), imax, zero_first=rng.random() < 0.3, min_step=5e-4 * max(vmax, imax))
    # number types: a table read from a TOML / JSON file (or typed by hand) has whole-number axes as Python ints
    numtype = rng.choice(["float", "float", "float", "int_axes", "int_axes", "int_io", "int_vi"])
    if numtype in ("int_axes", "int_vi"):
        vis = sorted(rng.sample(range(2, 61), len(vis)))
    if numtype in ("int_axes", "int_io"):
        ios = sorted(rng.sample(range(0 if rng.random() < 0.4 else 1, 13), nio)) if nio <= 12 else list(range(nio))
        if len(vis) > 1 and numtype == "int_io":
            vis = [v * 10.0 for v in vis] if max(vis) < 12 else vis  # keep io steps >= 1e-4 of the largest coordinate
    if z == "eff":
        val = lambda: G.sig(rng.uniform(0.3, 1.0), 4)
    elif z == "vdrop":
        vd = min(vis) * 0.2
        val = lambda: G.sig(rng.uniform(0.05, 1.0) * vd, 4)
    else:
        ig = G.lu(rng, 1e-6, 1e-2)
        val = lambda: G.sig(rng.uniform(0.1, 1.0) * ig, 4)
    const = rng.random() < 0.12
    cv = val()
    tab = {"vi": vis, "io": ios, z: [[cv if const else val() for _ in ios] for _ in vis]}
    shape = "random"
    if not const and i % 5 == 3:
        # curves with REPEATED values: equal end points around a different interior (an efficiency curve peaking at
        # mid load), plateaus of equal neighbours, and (2-D) a first row equal to the last row
        shape = rng.choice(["equal_ends", "equal_ends", "plateau", "equal_end_rows"])
        for row in tab[z]:
            if shape == "equal_ends" and len(row) >= 3:
                row[-1] = row[0]
            elif shape == "plateau" and len(row) >= 3:
                k = rng.randrange(len(row) - 1)
                row[k + 1] = row[k]
        if shape == "equal_end_rows" and len(tab[z]) >= 3:
            tab[z][-1] = list(tab[z][0])
    if z != "eff" and not const and shape == "random" and rng.random() < 0.25:
        # exact-zero entries are legal for voltage drops and ground currents: single cells, a whole row, a whole column
        how = rng.choice(["cell", "cells", "row", "column"])
        rows_, cols_ = len(tab[z]), len(tab[z][0])
        if how == "row":
            tab[z][rng.randrange(rows_)] = [0.0] * cols_
        elif how == "column":
            j = rng.randrange(cols_)
            for row in tab[z]:
                row[j] = 0.0
        else:
            for _ in range(1 if how == "cell" else 3):
                tab[z][rng.randrange(rows_)][rng.randrange(cols_)] = 0.0
    # axis presentation variants: the vi axis written with negative values (tables for negative rails) and /
    # or in descending order - the sign of the coordinates is ignored and rows carry their own vi value
    form = rng.choice(["plain", "plain", "neg_vi", "desc_vi", "neg_desc_vi", "shuffled_vi", "neg_shuffled_vi"])
    if len(vis) > 1 or form == "neg_vi":
        if "shuffled" in form and len(vis) > 2:
            # rows listed in arbitrary order (a curve appended later): each row carries its own vi value
            perm = list(range(len(vis)))
            while perm == sorted(perm) or perm == sorted(perm, reverse=True):
                rng.shuffle(perm)
            tab["vi"] = [tab["vi"][k] for k in perm]
            tab[z] = [tab[z][k] for k in perm]
        if "desc" in form:
            tab["vi"] = tab["vi"][::-1]
            tab[z] = tab[z][::-1]
        if "neg" in form:
            tab["vi"] = [-v for v in tab["vi"]]
    else:
        form = "plain"
    return {"kind": kind, "z": z, "table": tab, "qseed": rng.randrange(1 << 30), "const": const,
            "nq": 40 if tier == "quick" else 60, "axis_form": form, "numtype": numtype, "one_object": i % 3 != 0, "plot_first": i % 4 == 1, "mux_fallback": i % 2 == 1,
            "plot3d": i % 8 == 1, "value_shape": shape}


def directed():
    t2 = {"vi": [3.3, 5.0, 12.0], "io": [0.1, 0.5, 0.9], "eff": [[0.55, 0.78, 0.92], [0.5, 0.74, 0.83], [0.4, 0.6, 0.766]]}
    t1 = {"vi": [2.5], "io": [0.1, 0.5, 0.9], "vdrop": [[0.23, 0.41, 0.477]]}
    return [{"kind": "Converter", "z": "eff", "table": t2, "qseed": 1, "const": False, "nq": 60},
            {"kind": "VLoss", "z": "vdrop", "table": t1, "qseed": 2, "const": False, "nq": 40}]


def _c(name, kind, args, parents):
    return {"name": name, "kind": kind, "args": args, "parents": parents, "group": "", "rail": "", "limits": None,
            "phase": None}


def probe_spec(kind, z, param, V, I):
    if kind == "Converter":
        a = {"vo": 3.3 if abs(V) > 0 else 3.3, "eff": param}
    elif kind == "VLoss":
        a = {"vdrop": param}
    elif kind == "Rectifier" and z == "vdrop":
        a = {"vdrop": param}
    elif kind == "Rectifier":
        a = {"ig": param}
    elif kind == "LinReg":
        a = {"vo": 1.0, "ig": param}
    else:
        a = {"ig": param}
    par = ["S"]
    return {"name": "probe", "comps": [_c("S", "Source", {"vo": V}, []), _c("X", kind, a, par),
                                       _c("L", "ILoad", {"ii": I}, ["X"])], "phases": {}}


def recovered(kind, z, row, V, I):
    C = M.COLS
    if z == "eff":
        return 3.3 * I / (abs(V) * row[C["iin"]])
    if z == "vdrop":
        d = abs(V) - abs(row[C["vout"]])
        return d / 2.0 if kind == "Rectifier" else d
    return row[C["iin"]] - I


def expected(tab, z, io, vi):
    """-> ('exact', value, where) | ('range', lo, hi, where); io, vi magnitudes."""
    ios, vis = tab["io"], tab["vi"]
    zz = tab[z]
    if len(vis) == 1:
        return ("exact", M.interp1(io, ios, zz[0]), "1d")
    outside = io < ios[0] or io > ios[-1] or vi < vis[0] or vi > vis[-1]
    x = min(max(io, ios[0]), ios[-1])
    y = min(max(vi, vis[0]), vis[-1])
    ix = bisect.bisect_left(ios, x)
    iy = bisect.bisect_left(vis, y)
    on_x = ix < len(ios) and ios[ix] == x
    on_y = iy < len(vis) and vis[iy] == y
    tag = "clamp" if outside else None
    if on_x and on_y:
        return ("exact", zz[iy][ix], tag or "node")
    if on_x:
        j = iy - 1
        t = (y - vis[j]) / (vis[j + 1] - vis[j])
        return ("exact", zz[j][ix] + t * (zz[j + 1][ix] - zz[j][ix]), tag or "gridline")
    if on_y:
        i_ = ix - 1
        t = (x - ios[i_]) / (ios[i_ + 1] - ios[i_])
        return ("exact", zz[iy][i_] + t * (zz[iy][i_ + 1] - zz[iy][i_]), tag or "gridline")
    i_, j = ix - 1, iy - 1
    vals = [zz[j][i_], zz[j][i_ + 1], zz[j + 1][i_], zz[j + 1][i_ + 1]]
    return ("range", min(vals), max(vals), "cell")


def queries(rng, tab, n, z="eff", kind=""):
    ios, vis = tab["io"], tab["vi"]

    def pick(ax):
        m = rng.choice(["node", "node", "between", "between", "below", "above"])
        if m == "node" or (len(ax) == 1 and m == "between"):
            return rng.choice(ax), "on"
        if m == "between":
            k = rng.randrange(len(ax) - 1)
            t = rng.choice([0.5, rng.random(), 1e-3, 1 - 1e-3])
            v = ax[k] + t * (ax[k + 1] - ax[k])
            return v, "in"
        if m == "below":
            if ax[0] <= 0:
                return ax[0], "on"
            return ax[0] * rng.choice([0.999, 0.5, 0.1, rng.uniform(0.1, 1.0)]), "out"
        return ax[-1] * rng.choice([1.001, 2.0, 10.0, rng.uniform(1.0, 10.0)]), "out"

    out = []
    if len(vis) > 1 and len(ios) > 1:
        # consecutive lookups beyond OPPOSITE vi edges at a load current strictly inside the io axis, with no lookup
        # inside the vi range in between (a sweep that jumps from one side of the table to the other)
        for _ in range(2):
            k = rng.randrange(len(ios) - 1)
            io_mid = ios[k] + rng.uniform(0.2, 0.8) * (ios[k + 1] - ios[k])
            lo = vis[0] * rng.choice([0.5, 0.9]) if vis[0] > 0 else None
            hi = vis[-1] * rng.choice([1.2, 3.0])
            seq = [(io_mid, hi, "in", "out")] + ([(io_mid, lo, "in", "out")] if lo else []) + [(io_mid, hi, "in", "out")]
            if rng.random() < 0.5:
                seq.reverse()
            out += seq
    for _ in range(n):
        io, a = pick(ios)
        vi, b = pick(vis)
        if io <= 0:
            io = min(x for x in ios if x > 0) * 0.5 if len(ios) > 1 else 1e-3  # the probe needs a load current
            a = "out" if io < ios[0] else "in"
        out.append((io, vi, a, b))
    if z in ("ig", "vdrop") and not (kind == "Rectifier" and z == "ig"):
        # (a MOSFET Rectifier is documented to draw its separate no-load parameter iq at io = 0, not the ig table)
        # an UNLOADED element (zero output current: a leaf, or a load that draws nothing) still looks its parameter up,
        # at io = 0 (clamped to the first column unless the axis starts at 0) and at the voltage it really sees
        for _ in range(3):
            vi, b = pick(vis)
            out.insert(rng.randrange(len(out) + 1), (0.0, vi, "on" if ios[0] == 0 else "out", b))
    return out


def normalised(tab, z):
    """The table as the property reads it: magnitudes, rows in ascending |vi| order."""
    vis = [abs(v) for v in tab["vi"]]
    order = sorted(range(len(vis)), key=lambda k: vis[k])
    return {"vi": [vis[k] for k in order], "io": [abs(v) for v in tab["io"]], z: [[abs(v) for v in tab[z][k]] for k in order]}


def run(ctx, case):
    import random

    ns = loader.load()
    rng = random.Random(case["qseed"])
    kind, z, raw_tab = case["kind"], case["z"], case["table"]
    tab = normalised(raw_tab, z)
    ctx.see("axis_forms", case.get("axis_form", "plain"))
    ctx.see("number_types", case.get("numtype", "float"))
    ctx.see("value_shapes", case.get("value_shape", "random"))
    st, comp = H.call(S.make_comp, ns, _c("X", kind, probe_spec(kind, z, raw_tab, 5.0, 1.0)["comps"][1]["args"], ["S"]))
    if st != "ok":
        raise RuntimeError("well-conditioned table rejected: %s" % H.exc_sig(comp))
    qs = queries(rng, tab, case["nq"], z, kind)
    qs = [(q_[0], q_[1], "out", "out") for q_ in case.get("extra_queries", [])] + qs
    if case.get("one_object", True) and case.get("plot_first"):
        # the table is PLOTTED (System.plot_interp) before the component has ever been looked up
        import matplotlib.pyplot as plt

        def _plot():
            so_ = ns.System("plot", ns.KINDS["Source"]("S", vo=5.0))
            so_.add_comp("S", comp=comp)
            so_.add_comp("X", comp=ns.KINDS["ILoad"]("L", ii=0.1))
            r = so_.plot_interp("X", plot3d=case.get("plot3d", False))
            plt.close("all")
            return r

        with H.quiet():
            stp, _r = H.call(_plot)
        ctx.count("probe", "table plotted before the first lookup" + ("" if stp == "ok" else " (plot raised %s)" % type(_r).__name__))
    nq_out = 0
    C = M.COLS
    for io, vi, a, b in qs:
        neg = rng.random() < 0.3
        V = -vi if neg else vi
        spec = probe_spec(kind, z, raw_tab, V, io)
        leaf = io == 0 and rng.random() < 0.5
        if leaf:
            spec["comps"] = spec["comps"][:2]  # nothing connected to the element at all
            ctx.count("probe", "element is a leaf (no load connected)")
        elif io == 0:
            ctx.count("probe", "load draws 0 A")
        if case.get("one_object", True) or (kind == "PMux" and case.get("mux_fallback")):
            # ONE tabulated component object serves every probe system of the case (a part definition re-used across
            # what-if systems): a lookup must not depend on the lookups made before it
            def _mk():
                if kind == "PMux" and case.get("mux_fallback"):
                    # the mux runs from its SECOND input (the first one is a 0 V source): the table is read at the
                    # voltage of the input that feeds the mux
                    so_ = ns.System("probe", ns.KINDS["Source"]("S0", vo=0.0))
                    so_.add_source(ns.KINDS["Source"]("S", vo=V))
                    so_.add_comp(["S0", "S"], comp=comp)
                else:
                    so_ = ns.System("probe", ns.KINDS["Source"]("S", vo=V))
                    so_.add_comp("S", comp=comp)
                if not leaf:
                    so_.add_comp("X", comp=ns.KINDS["ILoad"]("L", ii=io))
                return so_

            st, sysobj = H.call(_mk)
        else:
            st, sysobj = H.try_build(spec)
        if st != "ok":
            raise RuntimeError("probe rejected: %s" % H.exc_sig(sysobj))
        _log["calls"] = []
        _log["on"] = True
        st, df = H.solve(sysobj)
        _log["on"] = False
        det = {"kind": kind, "param": z, "io": io, "vi": vi, "negative_supply": neg, "where": (a, b)}
        e = expected(tab, z, io, vi)
        if st != "ok":
            # an unphysical operating point (drop >= supply) is legitimate for vdrop tables; anything else means
            # the parameter lookup itself went wrong (e.g. NaN keeps the solver from converging)
            worst = e[1] if e[0] == "exact" else e[2]
            drop = worst * (2.0 if kind == "Rectifier" else 1.0)
            legit = z == "vdrop" and drop >= 0.999 * vi and isinstance(df, ValueError)
            ctx.count("probe", ("legitimately " if legit else "") + "raised " + type(df).__name__)
            ctx.check("interp.not_nan", legit, dict(det, probe_raised=H.exc_sig(df), expected=list(e), table=raw_tab))
            continue
        scale = max(max(abs(v) for v in row) for row in tab[z])
        calls = [c for c in _log["calls"] if c[0] == io and c[1] == vi]
        if not calls:
            ctx.inconc("no _interp call observed at the probe point")
            continue
        for (_, _, val) in calls[-2:]:
            ctx.check("interp.not_nan", math.isfinite(val), dict(det, returned=val))
            if not math.isfinite(val):
                continue
            if e[0] == "exact":
                ok = abs(val - e[1]) <= 1e-9 * scale
                cl = {"1d": "interp.1d", "node": "interp.node", "gridline": "interp.gridline", "clamp": "interp.clamp"}[e[2]]
                ctx.check(cl, ok, dict(det, returned=val, expected=e[1], table=tab))
            else:
                ctx.check("interp.cell_range", e[1] - 1e-9 * scale <= val <= e[2] + 1e-9 * scale,
                          dict(det, returned=val, corner_range=[e[1], e[2]], table=tab))
        _, per, _ = M.split_table(df)
        row = per[""]["rows"]["X"]
        rec = recovered(kind, z, row, V, io)
        val = calls[-1][2]
        ref = {"eff": 1.0, "vdrop": abs(V), "ig": abs(io) + scale}[z]
        ctx.check("table.recovered", abs(rec - val) <= 1e-6 * ref + 1e-7,
                  dict(det, recovered_from_table=rec, interp_returned=val, row=M._rowvals(row)))
        # sign of the lookup arguments is ignored: same magnitude results on the mirrored supply
        if rng.random() < 0.25:
            spec2 = probe_spec(kind, z, raw_tab, -V, io)
            st2, s2 = H.try_build(spec2)
            st2, df2 = H.solve(s2)
            if st2 == "ok":
                _, p2, _ = M.split_table(df2)
                r2 = p2[""]["rows"]["X"]
                same = all(abs(abs(row[C[k]]) - abs(r2[C[k]])) <= 1e-9 * max(1.0, abs(row[C[k]])) for k in ("vout", "iin", "p", "l"))
                ctx.check("interp.sign", same, dict(det, row=M._rowvals(row), mirrored=M._rowvals(r2)))
        if a == "out" or b == "out":
            nq_out += 1
        ctx.count("query_class", "%s/%s" % (a, b))
    # two tabulated components in ONE system, queried at the same operating point: each must answer from its own
    # table (interpolators must not share state)
    if len(tab["vi"]) > 1 or len(tab["io"]) > 1:
        raw2 = {"vi": list(raw_tab["vi"]), "io": list(raw_tab["io"]),
                z: [[G.sig(v * (0.55 + 0.4 * ((3 * a_ + 7 * b_) % 5) / 5.0), 5) for b_, v in enumerate(row)] for a_, row in enumerate(raw_tab[z])]}
        tab2 = normalised(raw2, z)
        scale2 = max(max(abs(v) for v in row) for row in tab[z])
        for io, vi, a, b in [q for q in qs if q[2] == "on" and q[3] == "on"][:3] + qs[:2]:
            base = probe_spec(kind, z, raw_tab, vi, io)
            second = probe_spec("PSwitch" if kind == "PMux" else kind, z, raw2, vi, io)  # only one PMux per system
            x2 = dict(second["comps"][1], name="Y")
            l2 = dict(second["comps"][2], name="L2", parents=["Y"])
            spec2 = {"name": "pair", "comps": base["comps"] + [x2, l2], "phases": {}}
            st, sysobj = H.try_build(spec2)
            if st != "ok":
                raise RuntimeError("pair probe rejected: %s" % H.exc_sig(sysobj))
            st, df = H.solve(sysobj)
            if st != "ok":
                continue
            _, per, _ = M.split_table(df)
            for nm, tb in (("X", tab), ("Y", tab2)):
                row = per[""]["rows"][nm]
                rec = recovered(kind, z, row, vi, io)
                e = expected(tb, z, io, vi)
                ref = {"eff": 1.0, "vdrop": abs(vi), "ig": abs(io) + scale2}[z]
                lo, hi = (e[1], e[1]) if e[0] == "exact" else (e[1], e[2])
                ok = lo - 1e-6 * ref - 1e-7 <= rec <= hi + 1e-6 * ref + 1e-7
                ctx.check("table.own_table_in_shared_system", ok,
                          {"kind": kind, "param": z, "component": nm, "io": io, "vi": vi, "recovered": rec, "expected": list(e),
                           "own_table": tb, "other_table": tab2 if nm == "X" else tab})
    # constant table == constant
    if case["const"]:
        cval = tab[z][0][0]
        io, vi = qs[0][0], qs[0][1]
        st1, a1 = H.try_build(probe_spec(kind, z, raw_tab, vi, io))
        st2, a2 = H.try_build(probe_spec(kind, z, cval, vi, io))
        s1, d1 = H.solve(a1)
        s2, d2 = H.solve(a2)
        if s1 == "ok" and s2 == "ok":
            diffs = H.frames_equal(d1, d2, rel=1e-9)
            ctx.check("table.constant_equals_scalar", not diffs, {"kind": kind, "param": z, "constant": cval, "differences": diffs[:5]})
        else:
            ctx.check("table.constant_equals_scalar", s1 == s2, {"kind": kind, "param": z, "table_solve": s1, "scalar_solve": s2})
    ctx.see("targets", "%s.%s:%s" % (kind, z, "1d" if len(tab["vi"]) == 1 else "2d"))
    ctx.see("table_shape", "%dx%d" % (len(tab["vi"]), len(tab["io"])))
    if len(tab["io"]) >= 2 and len(qs) >= 20 and nq_out > 0:
        ctx.nontrivial([kind, z, tab])
    ctx.sample({"kind": kind, "param": z, "table": tab, "queries": [list(q) for q in qs[:4]]})
