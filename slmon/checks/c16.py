"""C16 - results depend on the final structure only, not on the edit history."""

import copy
import json
import os
import random

from .. import gen as G, harness as H, hist, loader, model as M, spec as S
from . import _rows, c12
from .c09 import ALL as LIMIT_KEYS, DEFAULTS as LIMIT_DEFAULTS

PROP = "C16"
LEVEL = "exploration"
ANCHORS = ["change_comp", "del_comp", "_rel_update", "_get_parents", "_pars_and_limits", "System.phases", "_get_params", "_get_topo_sort"]  # functions whose reached lines are reported in the evidence
RULE = (
    "cases = a random target SystemSpec T (multi-source, PMux, rails, groups, limits, phases) and a DETOUR history "
    "that ends at T: random construction order; extra components added and deleted again (freeing node indices); "
    "components first added as another kind / with other parameters / under a temporary name and later replaced "
    "or renamed with change_comp (also PMux inputs, the PMux itself and sources, after their children exist); "
    "subtrees first hung below an extra series element that is later deleted with del_childs=False; phase "
    "configurations set early, lost by replacement and re-applied. The edited system E is compared with a system "
    "F freshly built from T: every report succeeds on E, lists exactly T's components, and solve / rail_rep / "
    "params(limits) / limits / phases agree per (Component, Phase) key, the save() documents agree up to sibling "
    "order, tree() names every component; params()/limits()/phases() must show the configured values (tables as "
    "'interp'). Non-trivial = history with >= 3 detours of >= 2 kinds on a target of >= 6 components; "
    "distinct = (canonical target hash, history seed)"
)
REQUIRED = ["history.reports_succeed", "history.live_set", "history.solve", "history.rail_rep", "history.params",
            "history.phases", "history.save", "history.structure", "shown.params", "shown.limits", "shown.phases",
            "detour.extra_add_delete", "detour.replace_kind", "detour.rename_late", "detour.via_intermediate",
            "detour.mux_input_reparented", "detour.move", "detour.scratch_until_end", "detour.mux_via_temp_rail",
            "detour.scratch_mux_deleted_via_its_source", "detour.namesake_deleted_as_descendant",
            "detour.created_with_scratch_source"]
SIZES = {"quick": 110, "thorough": 900}
ASSUMPTIONS = ["numeric cells are compared to 1e-9 relative (summation order of sibling currents depends on edge order)",
               "a detour history in which the code rejects a call is outside the quantifier (successful histories) and is "
               "counted, not judged"]


def gen(rng, i, tier):
    big = tier == "thorough"
    spec = G.gen_system(
        rng, n_comp=(4, 22 if big else 12), n_src=(1, 3) if rng.random() < 0.6 else (1, 1), mux=0.6,
        polarity=rng.choice(["pos", "pos", "any"]), regime="benign", tables=rng.choice([0.0, 0.4]), phases=0.5,
        max_depth=rng.choice([3, 5]), phase_conf=0.6, rt=0.4, groups=0.4, rails=rng.choice([0.0, 0.5]),
        via_rail=0.0, mux_inputs=(1, 4), neg_mag=0.0,
    )
    for c in spec["comps"]:
        if rng.random() < 0.4:
            keys = rng.sample(LIMIT_KEYS, rng.randint(1, 3))
            c["limits"] = {k: ([-40.0, G.sig(rng.uniform(50, 150))] if k == "tp" else
                               [G.sig(rng.uniform(0, 0.01)), G.sig(G.lu(rng, 0.1, 100.0))]) for k in keys}
    return {"spec": spec, "hseed": rng.randrange(1 << 40), "detour_rate": rng.choice([0.3, 0.6]), "first_scratch": i % 5 == 4, "force_move": i % 3 == 1}


def directed():
    def c(name, kind, args, parents, **kw):
        d = {"name": name, "kind": kind, "args": args, "parents": parents, "group": "", "rail": "", "limits": None,
             "phase": None}
        d.update(kw)
        return d
    comps = [c("S1", "Source", {"vo": 5.0}, []), c("S2", "Source", {"vo": 12.0}, []),
             c("A", "RLoss", {"rs": 0.5}, ["S1"]), c("M", "PMux", {"rs": [0.1, 0.2]}, ["A", "S2"]),
             c("L", "ILoad", {"ii": 0.2}, ["M"]), c("K", "PLoad", {"pwr": 0.3}, ["A"])]
    return [{"spec": {"name": "mux-input-rename", "comps": comps, "phases": {}}, "hseed": 7, "detour_rate": 1.0},
            {"spec": {"name": "mux-input-rename", "comps": comps, "phases": {}}, "hseed": 8, "detour_rate": 1.0}]


def other_kind(rng, kind, has_mux):
    if kind == "Source":
        return "Source"
    if kind == "PMux":
        return "PMux"
    opts = ["RLoss", "VLoss", "Converter", "LinReg", "PSwitch", "Rectifier", "PLoad", "ILoad", "RLoad"]
    return rng.choice([k for k in opts if k != kind])


def plan_history(rng, T, rate, first_scratch=False, force_move=False):
    """Ops (all expected to be accepted) that end at T. Returns (ops, detours used)."""
    order = S.topo_orders(T, rng, rng.choice(["random", "dfs", "bfs", "sources_first", "reverse_sources"]))["comps"]
    tmpl = S.comp_map(T)
    ch = S.children_map(T)
    cur = {}  # real name -> current name in the system
    ops, used = [], []
    pending_rename, pending_inter = [], []
    first = order[0]
    extra_n = [0]

    def entry(c, name=None, kind=None):
        if kind is None or kind == c["kind"]:
            e = {"name": name or c["name"], "kind": c["kind"], "args": copy.deepcopy(c["args"]), "limits": copy.deepcopy(c.get("limits"))}
        else:
            e = hist.comp_entry(rng, kind, name or c["name"])
        return e

    def rail_of(c, temp):
        return "" if temp else c.get("rail", "")

    zero_free_before = None
    late_move = None
    if first_scratch:
        # the system is CREATED with a scratch source (node index 0); the real first source joins through add_source.
        # The scratch source is deleted right before a component that will be the ONLY child of its parent is added:
        # that component then sits at the recycled node index 0 (an index that is falsy in `if ind:` / any(...) tests)
        ops.append(("start", hist.comp_entry(rng, "Source", "~z0"), "", ""))
        ops.append(add_op(first, entry(first), [], first.get("rail", "")))
        only = [c["name"] for c in order[1:] if c["kind"] != "Source" and len(c["parents"]) == 1
                and len(ch.get(c["parents"][0], [])) == 1]
        nonsrc = [c["name"] for c in order[1:] if c["kind"] != "Source"]
        zero_free_before = (only or nonsrc or [None])[0] if rng.random() < 0.8 else (nonsrc or [None])[0]
        used.append("created_with_scratch_source" + ("" if zero_free_before else "_kept_to_the_end"))
    else:
        start = entry(first)
        ops.append(("start", start, first.get("group", ""), first.get("rail", "")))
    cur[first["name"]] = first["name"]
    scratch = []
    if rng.random() < 0.35:
        # scratch components added right at the start and deleted at the very end: their node indices stay free
        for g_ in range(rng.choice([1, 2, 3])):
            sn = "~s%d" % g_
            ops.append({"op": "add_comp", "parent": first["name"], "comp": hist.comp_entry(rng, rng.choice(["ILoad", "RLoss", "Converter"]), sn)})
            scratch.append(sn)
        used.append("scratch_until_end")
    if rng.random() < 0.25:
        # a scratch PMux (fed by the first source and a scratch source) that disappears when its scratch SOURCE is
        # deleted with its children: the mux goes as a descendant, never named in a del_comp call; the indices it
        # and its load occupied are recycled by the components added afterwards
        ops.append({"op": "add_source", "comp": hist.comp_entry(rng, "Source", "~q0")})
        ops.append({"op": "add_comp", "parent": [first["name"], "~q0"], "comp": hist.comp_entry(rng, "PMux", "~qm")})
        ops.append({"op": "add_comp", "parent": "~qm", "comp": hist.comp_entry(rng, "ILoad", "~ql")})
        ops.append({"op": "analyse", "what": rng.choice(["solve", "save", "params"])})
        ops.append({"op": "del_comp", "name": "~q0", "del_childs": True})
        used.append("scratch_mux_deleted_via_its_source")
    for c in order[1:]:
        n = c["name"]
        if n == zero_free_before:
            if rng.random() < 0.5:
                ops.append({"op": "analyse", "what": rng.choice(["solve", "params", "save"])})
            ops.append({"op": "del_comp", "name": "~z0", "del_childs": True})
            if rng.random() < 0.6:
                # added without detour so that it takes the freed index 0
                ops.append(add_op(c, entry(c), [cur[p] for p in c["parents"]], c.get("rail", "")))
                cur[n] = n
                continue
        parents_now = [cur[p] for p in c["parents"]]
        has_mux = any(tmpl[x]["kind"] == "PMux" for x in cur)
        detour = rng.random() < rate
        how = rng.choice(["extra", "replace", "rename_late", "intermediate", "other_params", "move", "shadow"]) if detour else "direct"
        if force_move and late_move is None and c["kind"] in S.LOADS:
            # fixed share: one load hangs on a WRONG parent for the whole history and is moved (deleted and re-added
            # under its real parent: same name, same recycled node index) as the very last edit, right after an
            # analysis - nothing else changes between that edit and the judgement
            wrong_ = [cur[x] for x in cur if tmpl[x]["kind"] not in S.LOADS and tmpl[x]["kind"] != "PMux" and cur[x] not in parents_now
                      and not cur[x].startswith("~")]
            if wrong_:
                ops.append(add_op(c, entry(c), [rng.choice(wrong_)], ""))
                cur[n] = n
                late_move = c
                continue
        if c["kind"] == "PMux":
            # (fixed shares of the muxes: the mux-specific detours must not depend on luck)
            how = rng.choice(["intermediate", "intermediate", "other_params", "other_params", how])
        if how == "move":
            # the component is first hung on the wrong parent, the system is analysed, then the component is moved
            # (deleted and re-added under its real parent - node index and edge count are the same as before)
            wrong = [cur[x] for x in cur if tmpl[x]["kind"] not in S.LOADS and cur[x] not in parents_now]
            if c["kind"] in ("PMux", "Source") or not wrong:
                how = "direct"
            else:
                ops.append(add_op(c, entry(c), [rng.choice(wrong)], ""))
                ops.append({"op": "analyse", "what": rng.choice(["solve", "params", "save", "phases"])})
                ops.append({"op": "del_comp", "name": n, "del_childs": True})
                ops.append(add_op(c, entry(c), parents_now, c.get("rail", "")))
                ops.append({"op": "analyse", "what": "solve"})
                cur[n] = n
                used.append("move")
                continue
        if how in ("replace", "other_params", "rename_late") and c["kind"] == "PMux" and rng.random() < 0.8:
            # the mux is connected to one input through a TEMPORARY rail name of that input; the input's rail is
            # changed to its final value afterwards (the mux must keep following the component, not the string)
            k = rng.randrange(len(parents_now))
            real = c["parents"][k]
            if cur[real] == real and tmpl[real]["kind"] not in S.LOADS:
                tr = "~r_%s" % k
                ops.append({"op": "change_comp", "name": real, "comp": entry(tmpl[real]), "group": tmpl[real].get("group", ""), "rail": tr})
                pn = list(parents_now)
                pn[k] = tr
                ops.append(add_op(c, entry(c), pn, c.get("rail", "")))
                cur[n] = n
                if rng.random() < 0.5:
                    ops.append({"op": "analyse", "what": "solve"})
                ops.append({"op": "change_comp", "name": real, "comp": entry(tmpl[real]), "group": tmpl[real].get("group", ""),
                            "rail": tmpl[real].get("rail", "")})
                used.append("mux_via_temp_rail")
                continue
        if how == "shadow" and c["kind"] not in ("Source", "PMux") and tmpl[c["parents"][0]]["kind"] != "PMux":
            # an EARLIER namesake: a component of the same name (other parameters, sometimes another kind) first lives
            # below a scratch element, is reported on, and disappears as a DESCENDANT when that element is deleted with
            # its children; only then the real component is added under its real parent
            extra_n[0] += 1
            dn = "~d%d" % extra_n[0]
            ops.append({"op": "add_comp", "parent": parents_now[0], "comp": hist.comp_entry(rng, rng.choice(["RLoss", "PSwitch"]), dn)})
            if c["kind"] in S.LOADS:
                ghost = hist.comp_entry(rng, rng.choice(["PLoad", "ILoad", "RLoad"]), n)
            else:
                ghost = hist.comp_entry(rng, rng.choice([c["kind"], "RLoss", "Converter"]), n)
            ops.append({"op": "add_comp", "parent": dn, "comp": ghost, "group": rng.choice(["", "gh"])})
            ops.append({"op": "analyse", "what": rng.choice(["params", "params", "solve", "phases", "save"])})
            ops.append({"op": "del_comp", "name": dn, "del_childs": True})
            ops.append(add_op(c, entry(c), parents_now, c.get("rail", "")))
            cur[n] = n
            used.append("namesake_deleted_as_descendant")
            continue
        if how == "extra":
            # an extra component (sometimes with a child) that is deleted again, freeing node indices
            nonload = [cur[x] for x in cur if tmpl[x]["kind"] not in S.LOADS]
            extra_n[0] += 1
            xn = "~x%d" % extra_n[0]
            ops.append({"op": "add_comp", "parent": rng.choice(nonload), "comp": hist.comp_entry(rng, rng.choice(["RLoss", "Converter", "PSwitch"]), xn)})
            if rng.random() < 0.5:
                ops.append({"op": "add_comp", "parent": xn, "comp": hist.comp_entry(rng, "ILoad", xn + "c")})
            if rng.random() < 0.5:
                ops.append(add_op(c, entry(c), parents_now, c.get("rail", "")))
                cur[n] = n
                ops.append({"op": "del_comp", "name": xn, "del_childs": True})
            else:
                ops.append({"op": "del_comp", "name": xn, "del_childs": True})
                ops.append(add_op(c, entry(c), parents_now, c.get("rail", "")))
                cur[n] = n
            used.append("extra_add_delete")
            continue
        if how in ("replace", "other_params"):
            k2 = other_kind(rng, c["kind"], has_mux) if how == "replace" else c["kind"]
            e2 = entry(c, kind=k2) if k2 != c["kind"] else hist.comp_entry(rng, c["kind"], n)
            if c["kind"] == "PMux" and isinstance(e2["args"].get("rs"), list):
                e2["args"]["rs"] = 0.05
            ops.append(add_op(c, e2, parents_now, "", group="tmpgroup"))
            ops.append({"op": "change_comp", "name": n, "comp": entry(c), "group": c.get("group", ""), "rail": c.get("rail", "")})
            cur[n] = n
            used.append("replace_kind" if how == "replace" else "other_params")
            continue
        if how == "rename_late" :
            # the temporary name may be a FRAGMENT of other live names (a rename must touch whole names only)
            taken = set(tmpl) | set(cur.values()) | set(x.get("rail", "") for x in tmpl.values())
            frags = [f for x in cur.values() for f in (x[:-1], x[1:], x[:1]) if f and f not in taken]
            tn = rng.choice(frags) if frags and rng.random() < 0.5 else "~t_" + n
            ops.append(add_op(c, entry(c, name=tn), parents_now, "", group=c.get("group", "")))
            cur[n] = tn
            pending_rename.append(n)
            used.append("rename_late")
            continue
        if how == "intermediate" and c["kind"] == "PMux":
            # the mux is first fed through an extra element on one of its inputs; deleting that element with
            # del_childs=False re-parents the mux to the real input
            k = rng.randrange(len(parents_now))
            extra_n[0] += 1
            en = "~i%d" % extra_n[0]
            ops.append({"op": "add_comp", "parent": parents_now[k], "comp": hist.comp_entry(rng, "RLoss", en)})
            pn = list(parents_now)
            pn[k] = en
            ops.append(add_op(c, entry(c), pn, c.get("rail", "")))
            cur[n] = n
            pending_inter.append(en)
            used.append("via_intermediate")
            used.append("mux_input_reparented")
            continue
        if how == "intermediate" and c["kind"] != "PMux" and c["kind"] != "Source":
            extra_n[0] += 1
            en = "~i%d" % extra_n[0]
            ops.append({"op": "add_comp", "parent": parents_now[0], "comp": hist.comp_entry(rng, "RLoss", en)})
            ops.append(add_op(c, entry(c), [en], c.get("rail", "")))
            cur[n] = n
            pending_inter.append(en)
            used.append("via_intermediate")
            continue
        ops.append(add_op(c, entry(c), parents_now, c.get("rail", "")))
        cur[n] = n
        # occasionally resolve pending detours early (while later components are still to be added)
        if pending_rename and rng.random() < 0.3:
            r = pending_rename.pop(rng.randrange(len(pending_rename)))
            ops.append(rename_op(tmpl[r], cur[r], entry(tmpl[r])))
            cur[r] = r
        if pending_inter and rng.random() < 0.3:
            ops.append({"op": "del_comp", "name": pending_inter.pop(rng.randrange(len(pending_inter))), "del_childs": False})
    # early phase configuration on whatever names exist now (lost by later replacement / rename)
    phases = T.get("phases") or {}
    if phases and rng.random() < 0.5:
        ops.append({"op": "set_sys_phases", "phases": copy.deepcopy(phases)})
        for c in order:
            if c.get("phase") is not None and rng.random() < 0.5:
                ops.append({"op": "set_comp_phases", "name": cur[c["name"]], "conf": copy.deepcopy(c["phase"])})
                used.append("phase_conf_early")
    rng.shuffle(pending_inter)
    for en in pending_inter:
        ops.append({"op": "del_comp", "name": en, "del_childs": False})
    rng.shuffle(pending_rename)
    for r in pending_rename:
        ops.append(rename_op(tmpl[r], cur[r], entry(tmpl[r])))
        cur[r] = r
    if phases:
        ops.append({"op": "set_sys_phases", "phases": copy.deepcopy(phases)})
    for c in order:
        if c.get("phase") is not None:
            ops.append({"op": "set_comp_phases", "name": c["name"], "conf": copy.deepcopy(c["phase"])})
    for sn in scratch:
        ops.append({"op": "del_comp", "name": sn, "del_childs": True})
    if first_scratch and zero_free_before is None:
        ops.append({"op": "del_comp", "name": "~z0", "del_childs": True})
    if late_move is not None:
        c = late_move
        ops.append({"op": "analyse", "what": rng.choice(["solve", "solve", "params", "rail_rep"])})
        ops.append({"op": "del_comp", "name": c["name"], "del_childs": True})
        ops.append(add_op(c, entry(c), list(c["parents"]), c.get("rail", "")))
        if c.get("phase") is not None:
            ops.append({"op": "set_comp_phases", "name": c["name"], "conf": copy.deepcopy(c["phase"])})
        used.append("move")
        used.append("late_move")
    return ops, used


def add_op(c, e, parents_now, rail, group=None):
    g = c.get("group", "") if group is None else group
    if c["kind"] == "Source" and not c["parents"]:
        return {"op": "add_source", "comp": e, "group": g, "rail": rail}
    par = list(parents_now) if (c["kind"] == "PMux") else parents_now[0]
    if e["kind"] != "PMux" and isinstance(par, list):
        par = par[0]
    return {"op": "add_comp", "parent": par, "comp": e, "group": g, "rail": "" if e["kind"] in S.LOADS else rail}


def rename_op(c, current, e):
    return {"op": "change_comp", "name": current, "comp": e, "group": c.get("group", ""), "rail": c.get("rail", "")}


def run(ctx, case):
    ns = loader.load()
    T = case["spec"]
    rng = random.Random(case["hseed"])
    will_reload = rng.random() < 0.2
    if will_reload:
        # (limits that do not apply to a component's kind are legitimately not persisted - C12 - so a target that is
        # to pass through a file is configured with applicable limits only)
        from .c09 import applicable

        T = copy.deepcopy(T)
        for c in T["comps"]:
            if c.get("limits"):
                c["limits"] = {k: v for k, v in c["limits"].items() if k in applicable(c["kind"])} or None
    ops, used = plan_history(rng, T, case["detour_rate"], case.get("first_scratch", False), case.get("force_move", False))
    reload_at = rng.randrange(1, max(2, len(ops))) if will_reload else -1
    audit_at = rng.randrange(0, max(1, len(ops) - 1)) if rng.random() < 0.5 else -1
    late_src = [k_ for k_, o_ in enumerate(ops[1:]) if isinstance(o_, dict) and o_["op"] == "add_source"]
    pre_analyse_at = -1
    if late_src and rng.random() < 0.5:
        # a source added to an ALREADY ANALYSED system, judged before any further call
        audit_at = pre_analyse_at = rng.choice(late_src)
    _, start, g0, r0 = ops[0]
    E = ns.System(T.get("name", "sys"), hist.make(ns, start), group=g0, rail=r0)
    reloaded = False
    for k, op in enumerate(ops[1:]):
        if op["op"] == "analyse":
            with H.quiet(), H.tmpdir() as dd:
                H.call(E.save, os.path.join(dd, "i.json")) if op["what"] == "save" else H.call(getattr(E, op["what"]))
            ctx.ev("history.interleaved_analysis")
            continue
        if k == pre_analyse_at:
            with H.quiet():
                H.call(E.solve)
                H.call(E.params)
        st, e = hist.apply(E, op, ns)
        if st == "ok" and rng.random() < 0.3:
            # analyses interleaved with the edits: whatever they cache must be refreshed by later analyses
            an = rng.choice(["solve", "params", "phases", "save", "rail_rep"])
            with H.quiet():
                if an == "save":
                    with H.tmpdir() as dd:
                        H.call(E.save, os.path.join(dd, "i.json"))
                else:
                    H.call(getattr(E, an))
            ctx.ev("history.interleaved_analysis")
        if st == "ok" and not reloaded and k + 1 >= reload_at > 0:
            # the half-built system is saved and the history continues on the RELOADED copy (a loaded system is a
            # system like any other; nothing may stay shared with, or missing from, the object it was saved from)
            if rng.random() < 0.5:
                s2_, E2 = H.call(copy.deepcopy, E)  # ... or on a copy.deepcopy() of the half-built system
                tag = "continued_on_deep_copy"
            else:
                with H.quiet(), H.tmpdir() as dd:
                    fn_ = os.path.join(dd, "mid.json")
                    s_, _r = H.call(E.save, fn_)
                    s2_, E2 = H.call(ns.System.from_file, fn_) if s_ == "ok" else ("raise", None)
                tag = "continued_on_reloaded_copy"
            if s2_ == "ok":
                E, reloaded = E2, True
                used.append(tag)
        if st == "ok" and k == audit_at:
            # the same judgement at an INTERMEDIATE state of the history (right after this call, before any further
            # call can refresh whatever the code keeps): the structure to compare with is read from the live registries
            try:
                T_mid = hist.spec_from_live(E)
            except Exception as e_:  # noqa: BLE001
                T_mid = None
                ctx.check("history.reports_succeed", False, {"where": "intermediate", "exception": "%s: %s" % (type(e_).__name__, e_),
                                                             "history": ops_tail(ops[: k + 2], 40)[-8:]})
            if T_mid is not None and H.try_build(T_mid)[0] == "ok":
                _audit(ctx, ns, rng, T_mid, E, {"where": "intermediate state after call %d" % (k + 1), "last_call": hist.op_sig(op)}, ops[: k + 2], where="intermediate")
                ctx.ev("history.intermediate_audit")
        if st != "ok":
            ctx.count("history", "abandoned: %s rejected (%s)" % (hist.op_sig(op), type(e).__name__))
            ctx.inconc("detour op rejected: %s -> %s" % (json.dumps(op)[:200], H.exc_sig(e)))
            ctx.see("rejected_detour_ops", "%s:%s" % (hist.op_sig(op), str(e)[:60]))
            return
    for u in used:
        ctx.ev("detour." + u)
    det = {"detours": used, "ops": len(ops)}
    _audit(ctx, ns, rng, T, E, det, ops)
    shown(ctx, T, E, det)
    _rows.observe(ctx, T)
    for u in set(used):
        ctx.see("detours", u)
    if len(used) >= 3 and len(set(used)) >= 2 and len(T["comps"]) >= 6:
        ctx.nontrivial([S.canonical(T), case["hseed"]])
    ctx.sample({"target": _rows.short(T), "history": ops_tail(ops, 10), "detours": used})


def _audit(ctx, ns, rng, T, E, det, ops, where="final"):
    """Every report of the edited system E succeeds, lists exactly the live components of T and equals the report of
    a system built from scratch as T."""
    st, F = H.try_build(T)
    if st != "ok":
        raise RuntimeError("target spec rejected (%s): %s" % (where, H.exc_sig(F)))
    names = sorted(c["name"] for c in T["comps"])
    # structure read from the live graph
    sd = c12.structure_diff(T, E)
    ctx.check("history.structure", not sd, dict(det, differences=sd[:8], history=ops_tail(ops)))
    # every report succeeds and lists exactly the live components
    with H.tmpdir() as d:
        reports = {
            "solve": lambda s: s.solve(energy=True), "rail_rep": lambda s: s.rail_rep(), "params": lambda s: s.params(limits=True),
            "limits": lambda s: s.limits(), "phases": lambda s: s.phases(), "tree": lambda s: hist.tree_text(s),
            "save": lambda s: s.save(os.path.join(d, "s.json")),
        }
        if rng.random() < 0.08:
            reports["make_diag"] = lambda s: ns.diagram.make_diag(s, fname=os.path.join(d, "g.raw"))
        resE, resF = {}, {}
        for name, fn in reports.items():
            s1, r1 = H.call(fn, E)
            s2, r2 = H.call(fn, F)
            resE[name], resF[name] = (s1, r1), (s2, r2)
            if s2 != "ok":
                ctx.count("fresh_raises", "%s:%s" % (name, type(r2).__name__))
                # the freshly built system fails too (e.g. overloaded): only demand the same failure. A system without
                # a steady state fails either through a component's polarity guard (ValueError 'Unstable system') or by
                # running out of iterations (RuntimeError) - which one trips first depends on the sweep trajectory, i.e.
                # on node order, not on the structure: the two solver failures count as the same failure
                solver_fail = lambda e_: (isinstance(e_, ValueError) and "Unstable system" in str(e_)) or (
                    isinstance(e_, RuntimeError) and "Steady-state not achieved" in str(e_))
                # (same failure = same exception class up to subclassing: numpy's UFuncTypeError IS a TypeError, and which
                # of the two a sum over a column with '' cells raises depends on the order of its rows)
                same_cls = isinstance(r1, type(r2)) or isinstance(r2, type(r1))
                ctx.check("history.reports_succeed", s1 != "ok" and (same_cls or (solver_fail(r1) and solver_fail(r2))),
                          dict(det, report=name, edited="ok" if s1 == "ok" else H.exc_sig(r1), fresh=H.exc_sig(r2)))
                continue
            ctx.check("history.reports_succeed", s1 == "ok",
                      dict(det, report=name, exception=H.exc_sig(r1) if s1 != "ok" else "", history=ops_tail(ops), kind=name))
        # live set
        if resE["params"][0] == "ok":
            got = sorted(resE["params"][1]["Component"].tolist())
            ctx.check("history.live_set", got == names, dict(det, params_lists=got, expected=names))
        if resE["tree"][0] == "ok":
            txt = resE["tree"][1]
            missing = [n for n in names if n not in txt]
            # (temporary names are legitimately alive in an intermediate state)
            ghosts = [t for t in ("~x", "~t_", "~i", "~s", "~r_", "~q", "~d") if t in txt] if where == "final" else []
            ctx.check("history.live_set", not missing and not ghosts, dict(det, tree_missing=missing, ghosts=ghosts))
        # values equal to the freshly built system
        for name, keys in (("solve", ("Component", "Phase")), ("rail_rep", ("Rail", "Phase", "Component")),
                           ("phases", ("Component", "Active phase")), ("params", ("Component",)), ("limits", ("Component",))):
            (s1, r1), (s2, r2) = resE[name], resF[name]
            if s1 == "ok" and s2 == "ok":
                diffs = c12.keyed_diff(r1, r2, keys)
                ctx.check("history." + ("params" if name == "limits" else name), not diffs,
                          dict(det, report=name, differences_edited_vs_fresh=diffs[:8], history=ops_tail(ops)))
        # (the document is compared for the final state only: the intermediate reference is rebuilt from the live
        # registries, which do not tell an empty phase configuration written as [] from one written as {})
        if where == "final" and resE["save"][0] == "ok" and resF["save"][0] == "ok":
            E.save(os.path.join(d, "e.json"))
            F.save(os.path.join(d, "f.json"))
            de, df_ = json.load(open(os.path.join(d, "e.json"))), json.load(open(os.path.join(d, "f.json")))
            diffs = c12.json_diff(df_, de)
            ctx.check("history.save", not diffs, dict(det, differences_fresh_vs_edited=diffs[:8], history=ops_tail(ops)))


def ops_tail(ops, n=14):
    out = []
    for o in ops[:n]:
        if isinstance(o, tuple):
            out.append({"op": "System()", "comp": o[1]["name"]})
        else:
            d = {"op": o["op"]}
            if o["op"] == "analyse":
                d["what"] = o["what"]
            if "comp" in o:
                d["comp"] = "%s:%s" % (o["comp"]["kind"], o["comp"]["name"])
            for k in ("name", "parent", "del_childs", "rail"):
                if k in o and o[k] not in ("", None):
                    d[k] = o[k]
            out.append(d)
    return out


PARAM_COLS = {"vo": "vo (V)", "vdrop": "vdrop (V)", "rs": "rs (Ohm)", "rt": "rt (°C/W)", "eff": "eff (%)", "ig": "ig (A)",
              "iq": "iq (A)", "ii": "ii (A)", "iis": "iis (A)", "pwr": "pwr (W)", "pwrs": "pwrs (W)", "loss": "loss"}
KIND_PARAMS = {
    "Source": {"vo": None, "rs": 0.0, "rt": 0.0}, "PLoad": {"pwr": None, "pwrs": 0.0, "rt": 0.0, "loss": False},
    "ILoad": {"ii": None, "iis": 0.0, "rt": 0.0, "loss": False}, "RLoad": {"rs": None, "rt": 0.0, "loss": False},
    "RLoss": {"rs": None, "rt": 0.0}, "VLoss": {"vdrop": None, "rt": 0.0},
    "Converter": {"vo": None, "eff": None, "iq": 0.0, "iis": 0.0, "rt": 0.0},
    "LinReg": {"vo": None, "vdrop": 0.0, "ig": 0.0, "iis": 0.0, "rt": 0.0},
    "PSwitch": {"rs": 0.0, "ig": 0.0, "iis": 0.0, "rt": 0.0}, "PMux": {"rs": 0.0, "ig": 0.0, "iis": 0.0, "rt": 0.0},
}


def expected_params(c):
    k, a = c["kind"], c["args"]
    if k == "Rectifier":
        if M.rect_mode(c) == "diode":
            table = {"vdrop": None, "rt": 0.0}
        else:
            table = {"rs": 0.0, "ig": 0.0, "iq": 0.0, "rt": 0.0}
    else:
        table = KIND_PARAMS[k]
    out = {}
    for p, col in PARAM_COLS.items():
        if p not in table:
            out[col] = ""
            continue
        v = a.get(p, table[p])
        if k == "LinReg" and p == "ig" and a.get("iq", 0.0) != 0.0:
            v = a["iq"]
        if isinstance(v, dict):
            out[col] = "interp"
        elif isinstance(v, bool) or p == "vo" or isinstance(v, list):
            out[col] = v
        else:
            out[col] = abs(v)
    return out


def shown(ctx, T, E, det):
    """params()/limits()/phases() show the configured values."""
    cm = S.comp_map(T)
    st, pr = H.call(E.params)
    if st == "ok":
        bad = []
        for r in pr.to_dict("records"):
            c = cm.get(r["Component"])
            if c is None:
                continue
            for col, want in expected_params(c).items():
                if not H.cell_equal(r[col], want, 1e-15) and not (M.num(want) and M.num(r[col]) and float(want) == float(r[col])):
                    bad.append((r["Component"], c["kind"], col, r[col], want))
        ctx.check("shown.params", not bad, dict(det, differences_shown_vs_configured=bad[:8]))
    st, lr = H.call(E.limits)
    if st == "ok":
        bad = []
        for r in lr.to_dict("records"):
            c = cm.get(r["Component"])
            if c is None:
                continue
            for k in LIMIT_KEYS:
                col = [x for x in r if x.startswith(k + " ")][0]
                conf = (c.get("limits") or {}).get(k)
                want = conf if (conf is not None and conf != LIMIT_DEFAULTS[k]) else ""
                if r[col] != want:
                    bad.append((r["Component"], k, r[col], want))
        ctx.check("shown.limits", not bad, dict(det, differences_shown_vs_configured=bad[:8]))
    phases = T.get("phases") or {}
    st, ph = H.call(E.phases)
    if st == "ok" and phases:
        bad = []
        rows = {}
        for r in ph.to_dict("records"):
            rows.setdefault(r["Component"], []).append(r)
        for c in T["comps"]:
            got = rows.get(c["name"], [])
            conf = c.get("phase")
            listed = [p for p in phases if conf and p in conf]
            if c["kind"] in ("RLoss", "VLoss", "Rectifier") or not listed:
                want = ["N/A"]
            else:
                want = listed
            if c["kind"] == "Rectifier":
                continue  # phases() has no documented behaviour for rectifiers
            if [g["Active phase"] for g in got] != want:
                bad.append((c["name"], c["kind"], "active phases", [g["Active phase"] for g in got], want))
                continue
            if c["kind"] in S.LOADS:
                col = {"PLoad": "pwr (W)", "ILoad": "ii (A)", "RLoad": "rs (Ohm)"}[c["kind"]]
                key = {"PLoad": "pwr", "ILoad": "ii", "RLoad": "rs"}[c["kind"]]
                for g in got:
                    wv = abs(c["args"][key]) if g["Active phase"] == "N/A" else conf[g["Active phase"]]
                    if not H.cell_equal(g[col], wv, 1e-15) and not (M.num(g[col]) and float(g[col]) == float(wv)):
                        bad.append((c["name"], c["kind"], g["Active phase"], g[col], wv))
        ctx.check("shown.phases", not bad, dict(det, differences_shown_vs_configured=bad[:8]))
    elif st == "ok":
        ctx.check("shown.phases", ph is None, dict(det, why="no system phases: phases() returns None", got=repr(type(ph))))
