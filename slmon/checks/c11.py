"""C11 - constructors reject unphysical parameters with ValueError and treat negative-signed magnitudes as
magnitudes; no accepted component shows negative loss, efficiency > 100 % or passive gain."""

import copy
import math

from .. import gen as G, harness as H, loader, model as M, spec as S

PROP = "C11"
LEVEL = "exploration"
ANCHORS = ["__init__", "_check_limits", "_check_interp"]  # functions whose reached lines are reported in the evidence
RULE = (
    "cases = (kind, base arguments, one injected defect) over all 11 kinds and scalar / list / table forms: "
    "efficiency <= 0, > 1, NaN (constant) and <= 0 / > 1 inside tables; |vdrop| >= |vo|; zero load resistance; "
    "tables missing a key, with mismatched shapes, with non-increasing io; negative tabulated ground current; "
    "limits that are not two-number lists; non-numeric resistance lists - each must raise ValueError. Sign "
    "cases negate one or more magnitude arguments: the component must behave identically to the positive one "
    "in a solved probe system (Source - X - load, both polarities, several load points) and the probe tables "
    "must show Loss >= 0, efficiency <= 100 %, and |Vout| <= |Vin| for passive elements. Non-trivial = a "
    "rejection case, or a sign case whose probe system was solved at >= 2 load points; distinct = case hash"
)
REQUIRED = ["reject.valueerror", "accept.valid", "sign.same_behaviour", "accepted.physical"]
SIZES = {"quick": 900, "thorough": 6000}
ASSUMPTIONS = ["params() showing the raw (negative) value of a normalised constant ground current is recorded as a "
               "diagnostic, not a violation: the property speaks about behaviour in solved systems"]

TABLE_PARAMS = [("Converter", "eff"), ("VLoss", "vdrop"), ("Rectifier", "vdrop"), ("LinReg", "ig"), ("PSwitch", "ig"),
                ("PMux", "ig"), ("Rectifier", "ig")]
MAGS = {
    "Source": ["rs"], "PLoad": ["pwr", "pwrs", "rt"], "ILoad": ["ii", "iis", "rt"], "RLoad": ["rs", "rt"],
    "RLoss": ["rs", "rt"], "VLoss": ["vdrop", "rt"], "Converter": ["iq", "iis", "rt"],
    "LinReg": ["vdrop", "ig", "iis", "rt"], "PSwitch": ["rs", "ig", "iis", "rt"], "PMux": ["rs", "ig", "iis", "rt"],
    "Rectifier": ["vdrop", "rs", "ig", "iq", "rt"],
}
KINDS = list(MAGS)


def base_args(rng, kind, table=None):
    """Valid constructor arguments (positive magnitudes) for a probe at ~12 V, ~0.1-1 A."""
    u = lambda a, b: G.sig(rng.uniform(a, b))
    if kind == "Source":
        a = {"vo": u(6, 24), "rs": u(0.01, 0.5)}
    elif kind == "PLoad":
        a = {"pwr": u(0.1, 3), "pwrs": u(0.001, 0.01), "rt": u(1, 50)}
    elif kind == "ILoad":
        a = {"ii": u(0.05, 0.8), "iis": u(1e-4, 1e-3), "rt": u(1, 50)}
    elif kind == "RLoad":
        a = {"rs": u(20, 500), "rt": u(1, 50)}
    elif kind == "RLoss":
        a = {"rs": u(0.05, 1.0), "rt": u(1, 50)}
    elif kind == "VLoss":
        a = {"vdrop": u(0.1, 1.0), "rt": u(1, 50)}
    elif kind == "Converter":
        a = {"vo": u(1.0, 5.0), "eff": G.sig(rng.uniform(0.6, 0.98), 3), "iq": u(1e-5, 1e-3), "iis": u(1e-6, 1e-5), "rt": u(1, 50)}
    elif kind == "LinReg":
        a = {"vo": u(1.5, 5.0), "vdrop": u(0.1, 0.6), "ig": u(1e-5, 1e-3), "iis": u(1e-6, 1e-5), "rt": u(1, 50)}
    elif kind == "PSwitch":
        a = {"rs": u(0.01, 0.5), "ig": u(1e-5, 1e-3), "iis": u(1e-6, 1e-5), "rt": u(1, 50)}
    elif kind == "PMux":
        # on-resistance forms in turn: scalar, and per-input lists of one, two and three entries
        r1, r2, r3 = u(0.01, 0.5), u(0.01, 0.5), u(0.01, 0.5)
        a = {"rs": cyc("pmuxrsform", [r1, [r1, r2], [r1], r1, [r1, r2, r3], [r1, r2]]), "ig": u(1e-5, 1e-3),
             "iis": u(1e-6, 1e-5), "rt": u(1, 50)}
    else:  # Rectifier
        if rng.random() < 0.5:
            a = {"vdrop": u(0.2, 0.8), "rt": u(1, 50)}
        else:
            a = {"rs": u(0.01, 0.3), "ig": u(1e-5, 1e-3), "iq": u(1e-5, 1e-4), "rt": u(1, 50)}
            if rng.random() < 0.3:
                # the documented "float | list" form (on the pinned tree such a bridge is accepted and then cannot be
                # solved - TypeError -, identically for both signs; if it ever solves, the sign must not matter)
                a["rs"] = [a["rs"], u(0.01, 0.3)]
    return a


def good_table(rng, z, two_d=None):
    two_d = rng.random() < 0.5 if two_d is None else two_d
    ios = [0.01, 0.1, 0.5, 1.0][: rng.randint(2, 4)]
    vis = [5.0, 12.0, 24.0][: rng.randint(2, 3)] if two_d else [12.0]
    if z == "eff":
        v = lambda: G.sig(rng.uniform(0.5, 0.97), 3)
    elif z == "vdrop":
        v = lambda: G.sig(rng.uniform(0.1, 0.8), 3)
    else:
        v = lambda: G.sig(rng.uniform(1e-5, 1e-3), 3)
    return {"vi": vis, "io": ios, z: [[v() for _ in ios] for _ in vis]}


_cyc = {}


def cyc(name, options):
    """Deterministic round-robin choice: every catalogue entry is reached, not merely sampled."""
    k = _cyc.get(name, 0)
    _cyc[name] = k + 1
    return options[k % len(options)]


def invalid_case(rng):
    """-> (kind, args, limits, why)"""
    cls = cyc("class", ["eff_const", "eff_table", "linreg_vdrop", "rload_zero", "table_missing", "table_shape",
                      "table_io", "ig_negative", "limits", "rs_list"])
    lim = None
    if cls == "eff_const":
        kind = "Converter"
        a = base_args(rng, kind)
        a["eff"] = cyc("eff", [0.0, -0.0, -0.5, 1.0000001, 1.5, 100, float("nan"), -1, 0])
        why = "efficiency %r" % a["eff"]
    elif cls == "eff_table":
        kind = "Converter"
        a = base_args(rng, kind)
        t = good_table(rng, "eff")
        j, i = rng.randrange(len(t["vi"])), rng.randrange(len(t["io"]))
        t["eff"][j][i] = cyc("efft", [0.0, -0.2, 1.01, 2.0])
        a["eff"] = t
        why = "table efficiency %r" % t["eff"][j][i]
    elif cls == "linreg_vdrop":
        kind = "LinReg"
        a = base_args(rng, kind)
        k = cyc("vdrop", [1.0, 1.5, -1.0, -2.0, 10.0])
        a["vdrop"] = a["vo"] * k
        if rng.random() < 0.3:
            a["vo"] = -a["vo"]
        why = "|vdrop| >= |vo|"
    elif cls == "rload_zero":
        kind = "RLoad"
        a = base_args(rng, kind)
        a["rs"] = cyc("rl0", [0.0, 0, -0.0])
        why = "zero load resistance"
    elif cls in ("table_missing", "table_shape", "table_io"):
        kind, z = cyc("tp" + cls, TABLE_PARAMS)
        a = base_args(rng, kind)
        if kind == "Rectifier":
            a = {"rt": 1.0}
        t = good_table(rng, z)
        if cls == "table_missing":
            t.pop(cyc("miss", ["vi", "io", z]))
            why = "table missing a key"
        elif cls == "table_shape":
            form = cyc("tshape" + kind + z, ["row_short", "extra_row", "transposed", "folded", "flat", "scalar_z", "scalar_vi",
                                            "scalar_io", "empty", "ragged", "nonnumeric"])
            if form == "row_short":
                t[z] = [row[:-1] for row in t[z]]
                why = "table row shorter than io axis"
            elif form == "extra_row":
                t[z] = t[z] + [t[z][0]]
                why = "more table rows than vi entries"
            elif form == "transposed":  # same number of entries, wrong shape
                t = good_table(rng, z, two_d=True)
                t["vi"], t["io"] = [5.0, 12.0], [0.01, 0.1, 0.5]
                t[z] = [[t[z][0][0], t[z][0][1]] for _ in range(3)]
                why = "transposed table (len(io) rows of len(vi) entries)"
            elif form == "folded":  # same number of entries, wrong shape
                t = good_table(rng, z, two_d=False)
                t["vi"], t["io"] = [12.0], [0.01, 0.1, 0.5, 1.0]
                x = t[z][0][0]
                t[z] = [[x, x], [x, x]]
                why = "single-vi table folded into 2x2 for 4 io values"
            elif form == "flat":
                t[z] = [x for row in t[z] for x in row]
                why = "table given as a flat list"
            elif form == "scalar_z":
                t[z] = t[z][0][0]
                why = "scalar where the table rows belong"
            elif form == "scalar_vi":
                t["vi"] = t["vi"][0]
                why = "scalar vi axis"
            elif form == "scalar_io":
                t["io"] = t["io"][0]
                why = "scalar io axis"
            elif form == "empty":
                t["vi"], t["io"], t[z] = [], [], []
                why = "empty table"
            elif form == "ragged":
                t = good_table(rng, z, two_d=True)
                t[z][-1] = t[z][-1][:-1]
                why = "ragged table rows"
            else:
                key = cyc("tnn", ["vi", "io", z])
                bad = cyc("tnnv", ["a", None, "0.5", "x"])
                if key == z:
                    t[z][0][0] = bad
                else:
                    t[key][0] = bad
                why = "non-numeric entry %r in %s" % (bad, key)
        else:
            if rng.random() < 0.5:
                t["io"][-1] = t["io"][-2]
                why = "io axis not strictly increasing (equal)"
            else:
                t["io"] = t["io"][::-1]
                why = "io axis decreasing"
        a[z] = t
    elif cls == "ig_negative":
        kind = cyc("ign", ["LinReg", "PSwitch", "PMux", "Rectifier"])
        a = base_args(rng, kind)
        if kind == "Rectifier":
            a = {"rs": 0.1}
        t = good_table(rng, "ig")
        j, i = rng.randrange(len(t["vi"])), rng.randrange(len(t["io"]))
        t["ig"][j][i] = -abs(t["ig"][j][i])
        a["ig"] = t
        why = "negative tabulated ground current"
    elif cls == "limits":
        kind = cyc("limk", KINDS)
        a = base_args(rng, kind)
        key = rng.choice(["vi", "vo", "vd", "ii", "io", "pi", "po", "pl", "tr", "tp"])
        lim = {key: cyc("limv", [5, 5.0, [1], [1, 2, 3], ["a", 2], [1, "b"], (1, 2), "12", None, [None, 1], {"min": 0}, [[0], [1]], [], [0.0, 1.0, 2.0]])}
        why = "malformed limits %r" % (lim,)
    else:
        kind = cyc("rsl", ["PMux", "Rectifier"])
        a = base_args(rng, kind)
        if kind == "Rectifier":
            a = {"rt": 1.0}
        a["rs"] = cyc("rslv", [["a", 1.0], [0.1, None], [0.1, "0.2"], [[0.1], 0.2], [{}]])
        why = "non-numeric resistance list"
    return kind, a, lim, why


def gen(rng, i, tier):
    r = rng.random()
    if r < 0.45:
        kind, a, lim, why = invalid_case(rng)
        case = {"mode": "invalid", "kind": kind, "args": a, "limits": lim, "why": why, "decoys": rng.random() < 0.4,
                "reuse_limits": rng.random() < 0.5}
        tabs = [z for (k, z) in TABLE_PARAMS if k == kind and isinstance(a.get(z), dict)]
        if tabs and rng.random() < 0.4:
            # a GOOD table on the same axes layout (2-D if the bad one is 2-D) to be accepted first through the same object
            case["reuse_object"] = {z: good_table(rng, z, two_d=len(a[z].get("vi", [])) > 1 if isinstance(a[z].get("vi"), list) else None)
                                    for z in tabs}
        return case
    kind = rng.choice(KINDS)
    a = base_args(rng, kind)
    for (k, z) in TABLE_PARAMS:
        if k == kind and z in a and rng.random() < 0.3:
            a[z] = good_table(rng, z)
    # scalars, and voltage-drop TABLES (the only tabulated magnitude a negative sign is not rejected for)
    mags = [m for m in MAGS[kind] if m in a and (not isinstance(a[m], dict) or m == "vdrop")]
    neg = [m for m in mags if rng.random() < 0.5] or mags[:1]
    return {"mode": "sign", "kind": kind, "args": a, "negate": neg, "neg_supply": rng.random() < 0.4,
            "lseed": rng.randrange(1 << 30)}


def directed():
    return [
        {"mode": "sign", "kind": "PMux", "args": {"rs": 1.0}, "negate": ["rs"], "neg_supply": False, "lseed": 1},
        {"mode": "sign", "kind": "Rectifier", "args": {"rs": 1.0}, "negate": ["rs"], "neg_supply": False, "lseed": 2},
        {"mode": "sign", "kind": "Source", "args": {"vo": 12.0, "rs": 1.0}, "negate": [], "neg_supply": True, "lseed": 3},
    ]


def _c(name, kind, args, parents, limits=None):
    return {"name": name, "kind": kind, "args": args, "parents": parents, "group": "", "rail": "", "limits": limits,
            "phase": None}


def probe(kind, args, V, I):
    if kind == "Source":
        a = dict(args)
        a["vo"] = math.copysign(abs(a["vo"]), V)
        return {"name": "p", "comps": [_c("X", "Source", a, []), _c("L", "ILoad", {"ii": I}, ["X"])], "phases": {}}
    comps = [_c("S", "Source", {"vo": V}, [])]
    if kind in S.LOADS:
        comps.append(_c("X", kind, args, ["S"]))
    elif kind == "PMux":
        comps.append(_c("S2", "Source", {"vo": V * 0.9}, []))
        comps.append(_c("X", kind, args, ["S", "S2"]))
        comps.append(_c("L", "ILoad", {"ii": I}, ["X"]))
    else:
        comps.append(_c("X", kind, args, ["S"]))
        comps.append(_c("L", "ILoad", {"ii": I}, ["X"]))
    return {"name": "p", "comps": comps, "phases": {}}


def negate(args, names):
    a = copy.deepcopy(args)
    for n in names:
        if isinstance(a[n], dict):
            a[n][n] = [[-x for x in row] for row in a[n][n]]
        elif isinstance(a[n], list):
            a[n] = [-x for x in a[n]]
        else:
            a[n] = -a[n]
    return a


def run(ctx, case):
    import random

    ns = loader.load()
    kind = case["kind"]
    if case["mode"] == "invalid":
        if case.get("decoys"):
            # other components carrying the SAME number in a slot where it is legal were built earlier in the process
            for v_ in [x for x in case["args"].values() if isinstance(x, (int, float)) and not isinstance(x, bool) and x == x]:
                for k_, kw_ in (("Rectifier", {"vdrop": v_}), ("VLoss", {"vdrop": v_}), ("RLoss", {"rs": v_}), ("ILoad", {"ii": v_}),
                                ("Source", {"vo": v_}), ("PLoad", {"pwr": v_}), ("Converter", {"vo": v_, "eff": 0.9}),
                                ("Rectifier", {"vdrop": -v_}), ("PSwitch", {"rs": v_})):
                    H.call(ns.KINDS[k_], "decoy", **kw_)
            ctx.count("table_object", "decoys with the same numbers built first")
        if case.get("limits") is not None and case.get("reuse_limits"):
            # the very dict object that now holds the malformed limits was accepted before with well-formed contents
            obj = {k_: [0.0, 10.0] for k_ in case["limits"]}
            H.call(ns.KINDS[kind], "X0", **dict(copy.deepcopy(case["args"]), limits=obj))
            obj.clear()
            obj.update(copy.deepcopy(case["limits"]))
            st, r = H.call(ns.KINDS[kind], "X", **dict(copy.deepcopy(case["args"]), limits=obj))
            ctx.count("table_object", "limits dict reused after in-place edit")
        elif case.get("reuse_object"):
            # the very dict object that now holds the unacceptable table was accepted before, with good contents, and
            # then edited in place (a sweep over table values): every constructor call validates what it is given
            args = copy.deepcopy(case["args"])
            for z_, good in case["reuse_object"].items():
                if isinstance(args.get(z_), dict):
                    bad = args[z_]
                    obj = copy.deepcopy(good)
                    H.call(ns.KINDS[kind], "X0", **dict(args, **{z_: obj}))
                    obj.clear()
                    obj.update(bad)
                    args[z_] = obj
                    ctx.count("table_object", "reused after in-place edit")
            st, r = H.call(ns.KINDS[kind], "X", **dict(args, **({"limits": case["limits"]} if case.get("limits") is not None else {})))
        else:
            st, r = H.call(S.make_comp, ns, _c("X", kind, case["args"], [], case.get("limits")))
        ok = st == "raise" and isinstance(r, ValueError)
        ctx.check("reject.valueerror", ok, {"kind": kind, "args": case["args"], "limits": case.get("limits"),
                                            "why": case["why"], "outcome": "accepted" if st == "ok" else H.exc_sig(r)})
        ctx.see("rejection_classes", "%s:%s" % (kind, case["why"].split(" %")[0][:40]))
        ctx.nontrivial(["invalid", kind, case["args"], repr(case.get("limits"))])
        ctx.sample(case)
        return
    rng = random.Random(case["lseed"])
    pos = case["args"]
    neg = negate(pos, case["negate"])
    st, r = H.call(S.make_comp, ns, _c("X", kind, pos, []))
    ctx.check("accept.valid", st == "ok", {"kind": kind, "args": pos, "outcome": "" if st == "ok" else H.exc_sig(r)})
    if st != "ok":
        return
    st, r = H.call(S.make_comp, ns, _c("X", kind, neg, []))
    ctx.check("accept.valid", st == "ok", {"kind": kind, "args": neg, "negated": case["negate"],
                                           "outcome": "" if st == "ok" else H.exc_sig(r)})
    if st != "ok":
        return
    solved = 0
    for _ in range(3):
        V = G.sig(rng.uniform(8, 30)) * (-1 if case["neg_supply"] else 1)
        I = G.sig(rng.uniform(0.02, 0.6))
        tabs = []
        for a in (pos, neg):
            st, sysobj = H.try_build(probe(kind, a, V, I))
            if st != "ok":
                raise RuntimeError("probe rejected: %s" % H.exc_sig(sysobj))
            st, df = H.solve(sysobj)
            tabs.append((st, df, sysobj))
        (s1, d1, o1), (s2, d2, o2) = tabs
        det = {"kind": kind, "args": pos, "negated": case["negate"], "V": V, "I": I}
        if s1 != s2:
            ctx.check("sign.same_behaviour", False, dict(det, positive=s1, negative=s2,
                                                         exc=H.exc_sig(d1 if s1 != "ok" else d2)))
            continue
        if s1 != "ok":
            continue
        if _ == 0 and kind not in ("Source", "PMux"):
            # the caller's own numpy arrays as table data: the component must keep the values it was GIVEN - the caller
            # flipping the sign of its array afterwards (to build the next variant) must change neither the arrays'
            # past consumer nor, of course, make an accepted component show negative loss in a later solve
            import numpy as np

            # (1-D tables only: the 2-D constructors concatenate the axes as Python lists and do not take arrays)
            tz = [z_ for (k_, z_) in TABLE_PARAMS if k_ == kind and isinstance(pos.get(z_), dict) and len(pos[z_]["vi"]) == 1]
            if tz:
                z_ = tz[0]
                t_ = pos[z_]
                arrs = {"io": np.array(t_["io"], dtype=float), z_: np.array(t_[z_], dtype=float)}
                given = {k_: v_.copy() for k_, v_ in arrs.items()}
                a_np = dict(pos, **{z_: {"vi": t_["vi"], "io": arrs["io"], z_: arrs[z_]}})
                st_n, comp_n = H.call(ns.KINDS[kind], "X", **a_np)
                ctx.check("accept.valid", st_n == "ok", {"kind": kind, "table_as": "numpy arrays", "outcome": "" if st_n == "ok" else H.exc_sig(comp_n)})
                if st_n == "ok":
                    same = all(np.array_equal(arrs[k_], given[k_]) for k_ in arrs)
                    ctx.check("sign.same_behaviour", same, dict(det, table_as="numpy arrays", why="the constructor changed the caller's arrays",
                                                                 given={k_: v_.tolist() for k_, v_ in given.items()},
                                                                 now={k_: v_.tolist() for k_, v_ in arrs.items()}))

                    def _mk():
                        so_ = ns.System("p", ns.KINDS["Source"]("S", vo=V))
                        so_.add_comp("S", comp=comp_n)
                        if kind not in S.LOADS:
                            so_.add_comp("X", comp=ns.KINDS["ILoad"]("L", ii=I))
                        return so_

                    st_b, so_n = H.call(_mk)
                    if st_b == "ok":
                        sa, da = H.solve(so_n)
                        arrs[z_] *= -1.0       # the caller re-uses its array for the "negative sign" variant ...
                        arrs["io"] *= 3.0      # ... and for another current axis
                        sb, db = H.solve(so_n)
                        if sa == "ok":
                            diffs = H.frames_equal(da, db) if sb == "ok" else [("second solve raised", H.exc_sig(db))]
                            ctx.check("sign.same_behaviour", not diffs,
                                      dict(det, table_as="numpy arrays", why="the component follows later in-place edits of the caller's arrays",
                                           differences=diffs[:4]))
                    ctx.count("table_object", "numpy arrays, edited in place afterwards")
        if case["negate"]:
            diffs = H.frames_equal(d1, d2)
            ctx.check("sign.same_behaviour", not diffs, dict(det, differences=diffs[:5]))
            pr1, pr2 = H.call(o1.params), H.call(o2.params)
            if pr1[0] == "ok" and pr2[0] == "ok" and H.frames_equal(pr1[1], pr2[1]):  # non-empty list = differs
                ctx.count("diagnostic", "params() shows the raw negative value (%s)" % ",".join(case["negate"]))
        # accepted => physical (both variants)
        for d, a in ((d1, pos), (d2, neg)):
            if kind == "Rectifier" and isinstance(a.get("rs"), list):
                ctx.count("diagnostic", "Rectifier with list rs solved (no reference model for that form)")
                continue
            em = H.Emit(ctx, accept=("energy.loss_range", "energy.eff", "phys.no_gain"), prefix="accepted:",
                        extra={"probe": {"V": V, "I": I}})
            n0 = sum(ctx.clauses.get(k, 0) for k in ctx.clauses if k.startswith("accepted:"))
            M.check_table(em, probe(kind, a, V, I), d, M.Tol(), 25.0)
            n1 = sum(ctx.clauses.get(k, 0) for k in ctx.clauses if k.startswith("accepted:"))
            ctx.ev("accepted.physical", n1 - n0)
            for f in em.failed:
                pass
        solved += 1
        # "in ANY solved system": also one in which the accepted component took the place of another component of an
        # already analysed system (change_comp) - compared with the freshly built twin above and judged by the model
        if kind not in ("Source", "PMux") and _ == 0:
            alt = _c("X", "RLoad", {"rs": 100.0}, ["S"]) if kind in S.LOADS else _c("X", "RLoss", {"rs": 1.0}, ["S"])
            sp0 = probe(kind, neg, V, I)
            sp0["comps"] = [alt if c["name"] == "X" else c for c in sp0["comps"]]
            st0, so = H.try_build(sp0)
            if st0 == "ok":
                H.solve(so)
                stc, e = H.call(so.change_comp, "X", comp=S.make_comp(ns, _c("X", kind, neg, [])))
                st3, d3 = H.solve(so) if stc == "ok" else ("raise", e)
                if st3 == "ok":
                    diffs = H.frames_equal(d2, d3, rel=1e-9)
                    ctx.check("sign.same_behaviour", not diffs, dict(det, differences=diffs[:5], history="solve, change_comp(X), solve",
                                                                     compared_with="freshly built system"))
                    em = H.Emit(ctx, accept=("energy.loss_range", "energy.eff", "phys.no_gain"), prefix="accepted:",
                                extra={"probe": {"V": V, "I": I}, "history": "solve, change_comp(X), solve"})
                    M.check_table(em, probe(kind, neg, V, I), d3, M.Tol(), 25.0)
                    ctx.count("replacement_probe", kind)
                else:
                    ctx.check("sign.same_behaviour", False, dict(det, history="solve, change_comp(X), solve", outcome=H.exc_sig(d3)))
    ctx.see("sign_kinds", "%s:%s" % (kind, ",".join(sorted(case["negate"]))))
    if solved >= 2:
        ctx.nontrivial(["sign", kind, pos, case["negate"], case["neg_supply"]])
    ctx.sample(case)
