"""C08 - rail_rep() is the solve() table summed per supply rail."""

import copy
import math
import re

from .. import gen as G, harness as H, model as M, spec as S
from . import _rows

PROP = "C08"
LEVEL = "exploration"
ANCHORS = ["rail_rep"]  # functions whose reached lines are reported in the evidence
RULE = (
    "cases = random SystemSpecs with unique rail names on a random subset of non-load components (sources and "
    "the mux included), parents addressed by rail name, phases, several sources, a mux between rails, and "
    "limits chosen so that 0, 1 or several members of a rail carry warnings. rail_rep() is compared with a "
    "recomputation from solve() called with the same arguments: per phase the listed rails are exactly those "
    "that supply a component (membership by true supplier from the spec; a mux counts towards its selected "
    "input), Voltage = owner's Vout, Current/Power/Loss = sums over members, warning tokens = union of the "
    "members' tokens; with no rails defined rail_rep() == solve(). Non-trivial = >=2 rails with >=2 members "
    "in some phase; distinct = canonical spec hash"
)
REQUIRED = ["rail.set", "rail.voltage", "rail.sums", "rail.warnings", "rail.no_rails_equals_solve", "rail.returns"]
SIZES = {"quick": 180, "thorough": 1400}
ASSUMPTIONS = ["a mux without live input is booked (with all-zero values) under its first declared input, as in solve()",
               "a system whose rails feed nothing may report an empty frame or None"]


def gen(rng, i, tier):
    big = tier == "thorough"
    if i % 3 == 0:
        # mux between rails with a random live/dead input pattern (layouts shared with C05); mostly with phases, so
        # that the mux draws from DIFFERENT rails in different phases of one report
        from . import c05

        lay = c05.layout(rng, rng.choice([2, 3, 4]))
        lay["rails"] = True
        lay["phases"] = rng.random() < 0.8
        pat = [rng.choice([0, 1]) for _ in range(lay["k"])]
        if lay["phases"] and all(pat):
            pat[0] = 0  # a leading input that is dead in SOME phases
        spec = c05.realise(lay, pat)
        return {"spec": spec, "energy": False, "ta": 25.0, "phase_arg": rng.random() < 0.2,
                # (the report is first produced before the phase configurations - which make the mux switch rails - exist)
                "history": rng.choice(["fresh", "solve_then_phase_conf", "solve_then_phase_conf", "identity_change_comp"]),
                "hseed": rng.randrange(1 << 30)}
    norails = rng.random() < 0.12
    spec = G.gen_system(
        rng, n_comp=(3, 26 if big else 14), n_src=(1, 3) if rng.random() < 0.5 else (1, 1), mux=0.45,
        polarity=rng.choice(["pos", "pos", "any"]), regime="benign", tables=rng.choice([0.0, 0.3]), phases=0.5,
        max_depth=rng.choice([3, 5, 8]), dead=rng.choice([0.0, 0.2]), phase_conf=0.5, mux_inputs=(1, 4),
        rails=0.0 if norails else rng.choice([0.3, 0.6, 1.0]), via_rail=0.6, groups=0.2,
    )
    for c in spec["comps"]:
        if c["kind"] != "Source" and rng.random() < 0.35:
            key = rng.choice(["vi", "vi", "ii", "tp"])
            if key == "vi":
                c["limits"] = {"vi": [0.0, G.lu(rng, 1.0, 40.0)]}
            elif key == "ii":
                c["limits"] = {"ii": [0.0, G.lu(rng, 1e-3, 1.0)]}
            else:
                c["limits"] = {"tp": [-40.0, G.sig(rng.uniform(20.0, 60.0))]}
    return {"spec": spec, "energy": rng.random() < 0.3, "ta": rng.choice([25.0, 25.0, 70.0]),
            "phase_arg": rng.random() < 0.3,
            # (fixed share: rail owners first carry another rail name, or none, while the system is analysed)
            "history": (lambda h_: "solve_then_rerail" if i % 6 == 4 else h_)(rng.choice(_rows.HISTORIES)), "hseed": rng.randrange(1 << 30),
            "tags": rng.random() < 0.2, "decoy": rng.random() < 0.3}


class _NoCount:
    @staticmethod
    def count(*a, **k):
        pass


def directed():
    def c(name, kind, args, parents, rail="", limits=None):
        return {"name": name, "kind": kind, "args": args, "parents": parents, "group": "", "rail": rail,
                "limits": limits, "phase": None}
    comps = [c("S", "Source", {"vo": 12.0}, [], rail="VIN"),
             c("B", "Converter", {"vo": 3.3, "eff": 0.9}, ["S"], rail="3V3"),
             c("L1", "PLoad", {"pwr": 1.0}, ["B"], limits={"ii": [0.0, 0.1]}),  # the only member of 3V3, warns
             c("L2", "PLoad", {"pwr": 0.1}, ["S"])]
    return [{"spec": {"name": "lone-warning", "comps": comps, "phases": {}}, "energy": False, "ta": 25.0,
             "phase_arg": False}]


def toks(cell):
    return set(t for t in re.split(r"[ ,]+", cell or "") if t)


def run(ctx, case):
    spec = case["spec"]
    spec, sysobj = _rows.build_with_history(ctx, spec, case.get("history", "fresh"), case.get("hseed", 0), prefer="rail_rep")
    phases = list((spec.get("phases") or {}).keys())
    kw = dict(energy=case["energy"], ta=case["ta"])
    if case.get("tags"):
        kw["tags"] = {"rev": "C"}
    if case["phase_arg"] and phases:
        kw["phase"] = phases[len(phases) // 2]
    early = None
    if case.get("decoy"):
        # another System - same structure and build history, twice the load - is solved with the same arguments just
        # before the report is requested, and the report is requested BEFORE the subject was ever solved with them
        decoy_spec = copy.deepcopy(case["spec"])
        for c in decoy_spec["comps"]:
            for key in ("pwr", "ii"):
                if c["kind"] in ("PLoad", "ILoad") and isinstance(c["args"].get(key), (int, float)):
                    c["args"][key] = c["args"][key] * 2.0
        try:
            _, decoy = _rows.build_with_history(_NoCount, decoy_spec, case.get("history", "fresh"), case.get("hseed", 0), prefer="rail_rep")
            with H.quiet():
                H.solve(decoy, **kw)
        except Exception:  # noqa: BLE001  (the decoy is only a disturbance; if it cannot be built there is none)
            pass
        early = H.call(sysobj.rail_rep, **kw)
        ctx.count("history", "report requested right after a decoy system was solved")
    st, df = H.solve(sysobj, **kw)
    ctx.count("outcome", "returned" if st == "ok" else type(df).__name__)
    if st != "ok":
        return
    probe = H.Collect()
    info, per, _ = M.check_table(probe, spec, df, M.Tol(), case["ta"], only_phase=kw.get("phase"))
    if any(i.get("polarity_lost") or i.get("skipped") for i in info.values()):
        ctx.count("outcome", "unphysical table (skipped, C03)")
        return
    st, rr = early if early is not None else H.call(sysobj.rail_rep, **kw)
    ctx.check("rail.returns", st == "ok", {"exception": H.exc_sig(rr) if st != "ok" else "", "kw": kw,
                                           "why": "solve() returned for the same arguments"})
    if st != "ok":
        return
    cm = S.comp_map(spec)
    rails = {c["rail"]: c["name"] for c in spec["comps"] if c.get("rail") and c["kind"] not in S.LOADS}
    if not rails:
        ctx.check("rail.no_rails_equals_solve", rr is not None and not H.frames_equal(rr, df),
                  {"differences": H.frames_equal(rr, df)[:5] if rr is not None else "None"})
        ctx.sample({"spec": _rows.short(spec), "rails": {}})
        return
    C = M.COLS
    order = [p for p in per if p in info]
    expected = {}
    multi = False
    for ph in order:
        rows = per[ph]["rows"]
        sup, sel = info[ph]["sup"], info[ph]["sel"]
        for r_name, owner in rails.items():
            members = []
            for c in spec["comps"]:
                n = c["name"]
                s_ = sup[n]
                if s_ is None and c["kind"] == "PMux":
                    s_ = c["parents"][0]  # dead mux: booked under its first declared input (all zeros)
                if s_ == owner:
                    members.append(n)
            if members:
                expected[(ph, r_name)] = {
                    "members": members, "v": rows[owner][C["vout"]],
                    "i": math.fsum(rows[m][C["iin"]] for m in members),
                    "p": math.fsum(rows[m][C["p"]] for m in members),
                    "l": math.fsum(rows[m][C["l"]] for m in members),
                    "w": set().union(*[toks(rows[m][C["warn"]]) for m in members]),
                    "member_warnings": {m: rows[m][C["warn"]] for m in members},
                }
        if sum(1 for (p_, _), e in expected.items() if p_ == ph and len(e["members"]) >= 2) >= 2:
            multi = True
    got = {}
    if rr is not None and len(rr):
        for r in rr.to_dict("records"):
            got[(r.get("Phase", "") if "Phase" in rr.columns else (order[0] if len(order) == 1 and order[0] else ""), r["Rail"])] = r
    if kw.get("phase") and rr is not None and "Phase" not in getattr(rr, "columns", []):
        got = {(kw["phase"], k[1]): v for k, v in got.items()}
    ctx.check("rail.set", set(got) == set(expected),
              {"listed_not_expected": sorted(map(str, set(got) - set(expected))),
               "expected_not_listed": sorted(map(str, set(expected) - set(got))), "kw": kw})
    for key, e in expected.items():
        g = got.get(key)
        if g is None:
            continue
        det = {"phase": key[0], "rail": key[1], "members": e["members"]}
        ctx.check("rail.voltage", g["Voltage (V)"] == e["v"], dict(det, reported=g["Voltage (V)"], expected=e["v"]))
        ok = all(_rel(g[a], e[b]) for a, b in (("Current (A)", "i"), ("Power (W)", "p"), ("Loss (W)", "l")))
        ctx.check("rail.sums", ok, dict(det, reported=[g["Current (A)"], g["Power (W)"], g["Loss (W)"]],
                                        expected=[e["i"], e["p"], e["l"]]))
        ctx.check("rail.warnings", toks(g["Warnings"]) == e["w"],
                  dict(det, reported=g["Warnings"], expected=sorted(e["w"]), member_warnings=e["member_warnings"],
                       warning_members=sum(1 for w in e["member_warnings"].values() if w)))
        ctx.count("warning_members_per_rail", min(3, sum(1 for w in e["member_warnings"].values() if w)))
    ctx.see("rails_per_system", len(rails))
    _rows.observe(ctx, spec)
    if multi:
        ctx.nontrivial(S.canonical(spec))
    ctx.sample({"spec": _rows.short(spec), "rails": rails, "rail_rep_rows": len(got)})


def _rel(a, b, rel=1e-12):
    return M.num(a) and M.num(b) and abs(a - b) <= rel * max(abs(a), abs(b)) + 1e-300
