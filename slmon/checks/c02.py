"""C02 - energy conservation; loss / efficiency / temperature accounting on every returned table."""

from .. import gen as G, spec as S
from . import _rows

PROP = "C02"
LEVEL = "exploration"
ANCHORS = ["_solv_pwr_loss", "_get_eff", "System.solve"]  # functions whose reached lines are reported in the evidence
RULE = (
    "cases = random SystemSpecs as in C01 with thermal resistances on most components, loads-as-loss, no-load "
    "converters, sleeping elements, random ambient -60..125 degC, with/without phases; every row of every "
    "returned table is checked for Power-Loss=|Vout|*Iout, 0<=Loss<=Power, Efficiency=100*(P-L)/P in [0,100], "
    "load consumption reported exactly once, rise=rt*dissipation, peak=ta+rise, and per phase "
    "sum(source power)=sum(load power)+sum(losses). Non-trivial = returned table with >=4 rows, >=1 thermal "
    "resistance, >=1 loss-making element carrying current; distinct = canonical spec hash + ta"
)
REQUIRED = ["energy.row", "energy.power", "energy.load", "energy.loss_range", "energy.eff", "energy.system",
            "temp.rise", "temp.peak", "temp.peak_dead"]
SIZES = {"quick": 350, "thorough": 2500}
ASSUMPTIONS = [
    "row identities hold up to |V|*dI+|I|*dV with dV=1e-8+vtol*|V|, dI=1e-8+itol*|I| (the stopping rule of the solver)",
    "for a load that is not configured as a loss the repository's pinned tests require rise = rt*consumption; "
    "the monitor checks rise = rt*(Power+Loss) for loads and rt*Loss for everything else",
]
ACCEPT = ("rows.", "finite", "energy.", "temp.")


def gen(rng, i, tier):
    big = tier == "thorough"
    spec = G.gen_system(
        rng, n_comp=(2, 30 if big else 14), n_src=(1, 3) if rng.random() < 0.4 else (1, 1), mux=0.3,
        polarity=rng.choice(["pos", "pos", "neg", "mixed", "any"]), regime=rng.choice(["benign", "heavy"]),
        tables=rng.choice([0.0, 0.3, 0.6]), phases=0.35, rt=rng.choice([0.5, 0.9]), loss_flag=0.4,
        max_depth=rng.choice([3, 6, 10]), neg_src_rs=0.1, dead=rng.choice([0.0, 0.3]), sleep=0.7, iq=0.7,
        rails=rng.choice([0.0, 0.4]),
    )
    spec = _mux_layout(rng, spec)
    ta = rng.choice([25.0, round(rng.uniform(-60, 125), 1), float(rng.randint(-60, 125))])
    if rng.random() < 0.15:
        spec = G.scale_currents(spec, 10 ** rng.uniform(-6, 5))  # uA-class ... kA-class systems
    case = {"spec": spec, "tol": rng.choice([1e-6, 1e-6, 1e-9]), "ta": ta}
    case.update(_rows.random_call_context(rng))
    if spec.get("name") == "mux" and rng.random() < 0.5:
        # mux-centred layouts (often running from a non-first input) are assembled with reports in between
        case["history"] = "analysed_while_built"
    return case


def directed():
    def c(name, kind, args, parents):
        return {"name": name, "kind": kind, "args": args, "parents": parents, "group": "", "rail": "",
                "limits": None, "phase": None}
    # a dead branch next to a live one, every kind carrying a thermal resistance
    comps = [c("S", "Source", {"vo": 12.0, "rs": 0.1}, []), c("Z", "Source", {"vo": 0.0}, []),
             c("Live", "PLoad", {"pwr": 1.0, "rt": 10.0}, ["S"])]
    kinds = {"dP": ("PLoad", {"pwr": 1.0, "rt": 5.0}), "dC": ("Converter", {"vo": 3.3, "eff": 0.9, "rt": 5.0}),
             "dL": ("LinReg", {"vo": 3.3, "rt": 5.0}), "dS": ("PSwitch", {"rs": 0.1, "rt": 5.0}),
             "dR": ("RLoss", {"rs": 0.1, "rt": 5.0}), "dV": ("VLoss", {"vdrop": 0.1, "rt": 5.0}),
             "dB": ("Rectifier", {"vdrop": 0.3, "rt": 5.0}), "dM": ("Rectifier", {"rs": 0.1, "rt": 5.0})}
    for n, (k, a) in kinds.items():
        comps.append(c(n, k, a, ["Z"]))
    return [{"spec": {"name": "dead-temps", "comps": comps, "phases": {}}, "tol": 1e-6, "ta": 40.0},
            {"spec": {"name": "neg-source-rs", "comps": [c("S", "Source", {"vo": -12.0, "rs": 1.0}, []),
                                                          c("L", "ILoad", {"ii": 1.0, "rt": 3.0}, ["S"])],
                      "phases": {}}, "tol": 1e-6, "ta": 25.0}]


def run(ctx, case):
    df, info, _ = _rows.solve_and_judge(ctx, case, ACCEPT)
    spec = case["spec"]  # the effective spec (a build history may have reset phase configurations)
    if df is None:
        return
    kinds = _rows.observe(ctx, spec)
    ctx.count("ta_bucket", int(case["ta"] // 25) * 25)
    has_rt = any(abs(c["args"].get("rt", 0.0)) > 0 for c in spec["comps"])
    lossy = any(r["Loss (W)"] > 0 for r in df.to_dict("records") if r.get("Type") not in ("", "SOURCE", "LOAD"))
    if len(spec["comps"]) >= 4 and has_rt and lossy:
        ctx.nontrivial([S.canonical(spec), case["ta"]])
    ctx.sample({"spec": _rows.short(spec), "ta": case["ta"], "rows": len(df)})


def finish(ctx):
    _rows.repo_tests_under_monitor(ctx, ACCEPT)


def _mux_layout(rng, spec):
    """One case in five: a mux-centred layout (inputs below other components, per-input rs, tabulated ig, random
    live/dead input pattern) shared with C05, so that mux rows running from a NON-first input are judged here too."""
    if rng.random() >= 0.2:
        return spec
    from . import c05

    lay = c05.layout(rng, rng.choice([2, 3, 4]))
    return c05.realise(lay, [rng.choice([0, 1]) for _ in range(lay["k"])])
