"""C12 - save() / System.from_file() round-trips the whole system."""

import copy
import json
import os

from .. import gen as G, harness as H, loader, model as M, spec as S
from . import _rows
from .c09 import applicable, ALL as LIMIT_KEYS

PROP = "C12"
LEVEL = "exploration"
ANCHORS = ["from_file", "System.save", "_get_applims", "_get_childs_tree"]  # functions whose reached lines are reported in the evidence
RULE = (
    "cases = full-feature random SystemSpecs (all kinds and parameter forms incl. tables, diode and MOSFET "
    "rectifiers carrying current, LinReg via the deprecated iq keyword, several sources, a PMux whose inputs are "
    "addressed by name or by rail, limits on every kind, groups, rails, phases and component phase "
    "configurations). S' = System.from_file(S.save(f)); solve(energy=True), rail_rep(), params(limits=True) (limit "
    "columns applicable to the row's kind) and phases() of S and S' are compared per (Component, Phase) key; "
    "save(S') must equal save(S) as JSON; files stamped with a newer version must be refused with ValueError, "
    "same/older versions must load. Non-trivial = >= 6 components of >= 4 kinds with a table or non-default "
    "optional parameter; distinct = canonical spec hash"
)
REQUIRED = ["roundtrip.loads", "roundtrip.solve", "roundtrip.rail_rep", "roundtrip.params", "roundtrip.phases",
            "roundtrip.idempotent_json", "roundtrip.structure", "version.newer_refused", "version.older_accepted"]
SIZES = {"quick": 130, "thorough": 900}
ASSUMPTIONS = ["numeric cells are compared to 1e-9 relative: the reloaded system is built in file order, so the "
               "summation order of child currents may legitimately differ",
               "limits not applicable to a component's kind are legitimately not persisted"]

NEWER = ["1.10.1", "1.11.0", "2.0.0", "1.10.1rc1", "10.0.0", "1.10.0.post1"]
OLDER = ["1.10.0", "1.9.9", "1.0.0", "0.9.0", "1.10.0rc1"]


def gen(rng, i, tier):
    big = tier == "thorough"
    spec = G.gen_system(
        rng, n_comp=(4, 26 if big else 14), n_src=(1, 3) if rng.random() < 0.5 else (1, 1), mux=0.5,
        polarity=rng.choice(["pos", "pos", "neg", "any"]), regime="benign", tables=rng.choice([0.3, 0.6]),
        phases=0.5, max_depth=rng.choice([3, 5, 8]), phase_conf=0.6, rt=0.6, loss_flag=0.4, sleep=0.7, iq=0.7,
        groups=0.5, rails=rng.choice([0.0, 0.5, 0.8]), via_rail=0.6, mux_inputs=(1, 4), ints=0.3,
    )
    for c in spec["comps"]:
        if rng.random() < 0.6:
            keys = rng.sample(LIMIT_KEYS, rng.randint(1, 4))
            c["limits"] = {k: ([-40.0, G.sig(rng.uniform(50, 150))] if k == "tp" else
                               [G.sig(rng.uniform(0, 0.01)), G.sig(G.lu(rng, 0.1, 100.0))]) for k in keys}
        if c["kind"] == "LinReg" and "ig" in c["args"] and rng.random() < 0.4:
            ig = c["args"].pop("ig")  # deprecated keyword
            if isinstance(ig, dict):
                ig = dict(ig)
                ig["iq"] = ig.pop("ig")
            c["args"]["iq"] = ig
    return {"spec": spec, "vseed": rng.randrange(1 << 30), "via_history": rng.random() < 0.3}


def _c(name, kind, args, parents, **kw):
    d = {"name": name, "kind": kind, "args": args, "parents": parents, "group": "", "rail": "", "limits": None,
         "phase": None}
    d.update(kw)
    return d


def directed():
    comps = [_c("S", "Source", {"vo": 12.0, "rs": 0.05}, []),
             _c("Bridge", "Rectifier", {"vdrop": 0.6, "rt": 5.0}, ["S"]),  # a diode bridge that carries current
             _c("L", "ILoad", {"ii": 0.5}, ["Bridge"]),
             _c("FET", "Rectifier", {"rs": 0.05, "ig": 1e-4, "iq": 2e-5}, ["S"]),
             _c("L2", "PLoad", {"pwr": 2.0}, ["FET"])]
    return [{"spec": {"name": "bridges", "comps": comps, "phases": {}}, "vseed": 1},
            {"file": "tests/data/System v1.0.0.json"}, {"file": "tests/data/Future_system.json"},
            {"file": "tests/unit/case1.json"}, {"file": "tests/unit/case13.json"}]


def run_file(ctx, case):
    """A JSON file shipped with the repository: load it, save it again, reload, compare every report."""
    ns = loader.load()
    path = os.path.join(loader.REPO, case["file"])
    if not os.path.exists(path):
        ctx.count("repo_files", "absent: " + case["file"])
        return
    st, a = H.call(ns.System.from_file, path)
    ver = json.load(open(path))["system"]["version"]
    from packaging import version as _v

    newer = _v.parse(ver) > _v.parse(ns.sysloss.__version__)
    if newer:
        ctx.check("version.newer_refused", st == "raise" and isinstance(a, ValueError), {"file": case["file"], "file_version": ver})
        return
    ctx.check("version.older_accepted", st == "ok", {"file": case["file"], "file_version": ver, "outcome": "" if st == "ok" else H.exc_sig(a)})
    if st != "ok":
        return
    from .. import hist

    with H.tmpdir() as d:
        f1 = os.path.join(d, "a.json")
        a.save(f1)
        st, b = H.call(ns.System.from_file, f1)
        ctx.check("roundtrip.loads", st == "ok", {"file": case["file"], "exception": H.exc_sig(b) if st != "ok" else ""})
        if st != "ok":
            return
        spec = hist.spec_from_live(a)
        compare_reports(ctx, spec, a, b)
        sdiff = structure_diff(spec, b)
        ctx.check("roundtrip.structure", not sdiff, {"file": case["file"], "differences": sdiff[:8]})
    ctx.count("repo_files", "round-tripped: " + case["file"])
    ctx.sample({"repository_file": case["file"], "version": ver})


def run(ctx, case):
    import random

    if "file" in case:
        return run_file(ctx, case)
    ns = loader.load()
    spec = case["spec"]
    rng = random.Random(case["vseed"])
    if case.get("via_history"):
        # the system to be saved is the product of an edit history (node indices with holes, renamed components ...)
        from . import c16
        from .. import hist

        for c in spec["comps"]:
            c["via_rail"] = [False] * len(c["parents"])
            if c["kind"] == "LinReg" and "iq" in c["args"]:
                c["args"]["ig"] = c["args"].pop("iq")
                if isinstance(c["args"]["ig"], dict) and "iq" in c["args"]["ig"]:
                    c["args"]["ig"]["ig"] = c["args"]["ig"].pop("iq")
        ops, used = c16.plan_history(random.Random(case["vseed"] + 1), spec, 0.6, first_scratch=case["vseed"] % 4 == 1)
        _, start, g0, r0 = ops[0]
        a = ns.System(spec.get("name", "sys"), hist.make(ns, start), group=g0, rail=r0)
        for op in ops[1:]:
            if op["op"] == "analyse":
                continue
            st, e = hist.apply(a, op, ns)
            if st != "ok":
                ctx.inconc("detour op rejected: %s" % H.exc_sig(e))
                return
        ctx.count("built", "via edit history")
    else:
        st, a = H.try_build(spec)
        if st != "ok":
            raise RuntimeError("spec rejected: %s" % H.exc_sig(a))
        ctx.count("built", "fresh")
        if rng.random() < 0.3:
            # the user's component objects also serve a second System, assembled in another order (other node indices)
            # and analysed, before the first one is saved
            from . import _rows as _rw

            with H.quiet():
                _rw._sibling(a, spec, case["vseed"], reorder=True)
            ctx.count("built", "component objects shared with a sibling system")
    with H.tmpdir() as d:
        if spec.get("phases") and rng.random() < 0.35:
            # the same System was saved BEFORE, when its phases still had other durations (a new dict is handed to
            # set_sys_phases for the final ones): every save writes the system as it is then
            alt = {p_: G.sig(float(v_) * 3.0 + 2.0) for p_, v_ in spec["phases"].items()}
            with H.quiet():
                H.call(a.set_sys_phases, alt)
                H.call(a.save, os.path.join(d, "earlier.json"))
                H.call(a.set_sys_phases, copy.deepcopy(spec["phases"]))
            ctx.count("built", "saved earlier with other phase durations")
        if rng.random() < 0.3:
            # the unchanged system was saved a moment ago under ANOTHER file name (a backup copy): every save() call
            # writes the file it is asked to write
            with H.quiet():
                H.call(a.save, os.path.join(d, "backup copy.json"))
            ctx.count("built", "saved to another file name just before")
        f1 = os.path.join(d, "a.json")
        st, r = H.call(a.save, f1)
        if st != "ok":
            ctx.check("roundtrip.saves", False, {"exception": H.exc_sig(r)})
            return
        st, b = H.call(ns.System.from_file, f1)
        ctx.check("roundtrip.loads", st == "ok", {"exception": H.exc_sig(b) if st != "ok" else ""})
        if st != "ok":
            return
        doc1 = json.load(open(f1))
        # --- structure (from the reloaded object's own save) ---
        f2 = os.path.join(d, "b.json")
        st, r = H.call(b.save, f2)
        if st == "ok":
            doc2 = json.load(open(f2))
            diffs = json_diff(doc1, doc2)
            ctx.check("roundtrip.idempotent_json", not diffs, {"differences": diffs[:8]})
        else:
            ctx.check("roundtrip.idempotent_json", False, {"exception": H.exc_sig(r)})
        # structure vs the spec: parents (mux input order), kinds
        sdiff = structure_diff(spec, b)
        ctx.check("roundtrip.structure", not sdiff, {"differences": sdiff[:8]})
        # --- reports ---
        compare_reports(ctx, spec, a, b)
        # --- version gate ---
        for ver in rng.sample(NEWER, 2):
            doc = copy.deepcopy(doc1)
            doc["system"]["version"] = ver
            fv = os.path.join(d, "v.json")
            json.dump(doc, open(fv, "w"))
            st, r = H.call(ns.System.from_file, fv)
            ctx.check("version.newer_refused", st == "raise" and isinstance(r, ValueError),
                      {"file_version": ver, "library": ns.sysloss.__version__,
                       "outcome": "loaded" if st == "ok" else H.exc_sig(r)})
        for ver in rng.sample(OLDER, 2):
            doc = copy.deepcopy(doc1)
            doc["system"]["version"] = ver
            fv = os.path.join(d, "v.json")
            json.dump(doc, open(fv, "w"))
            st, r = H.call(ns.System.from_file, fv)
            ctx.check("version.older_accepted", st == "ok", {"file_version": ver, "library": ns.sysloss.__version__,
                                                             "outcome": "" if st == "ok" else H.exc_sig(r)})
    kinds = _rows.observe(ctx, spec)
    rich = any(isinstance(v, dict) for c in spec["comps"] for v in c["args"].values()) or any(
        len(c["args"]) > 2 for c in spec["comps"])
    if len(spec["comps"]) >= 6 and len(kinds) >= 4 and rich:
        ctx.nontrivial(S.canonical(spec))
    ctx.sample({"spec": _rows.short(spec)})


def compare_reports(ctx, spec, a, b, prefix="roundtrip"):
    cm = S.comp_map(spec)
    for name, call_, keys in (
        ("solve", lambda s: s.solve(energy=True), ("Component", "Phase")),
        ("rail_rep", lambda s: s.rail_rep(), ("Rail", "Phase", "Component")),
        ("phases", lambda s: s.phases(), ("Component", "Active phase")),
    ):
        s1, r1 = H.call(call_, a)
        s2, r2 = H.call(call_, b)
        if s1 != "ok" or s2 != "ok":
            same = s1 == s2 and (s1 == "ok" or type(r1) is type(r2))
            ctx.check("%s.%s" % (prefix, name), same, {"original": s1 if s1 == "ok" else H.exc_sig(r1),
                                                       "reloaded": s2 if s2 == "ok" else H.exc_sig(r2)})
            continue
        diffs = keyed_diff(r1, r2, keys)
        ctx.check("%s.%s" % (prefix, name), not diffs, {"report": name, "differences": diffs[:8]})
    s1, p1 = H.call(a.params, limits=True)
    s2, p2 = H.call(b.params, limits=True)
    if s1 == "ok" and s2 == "ok":
        k1, k2 = H.keyed_rows(p1, ("Component",)), H.keyed_rows(p2, ("Component",))
        diffs = []
        if set(k1) != set(k2):
            diffs.append(("components", sorted(map(str, set(k1) ^ set(k2)))))
        else:
            for key, x in k1.items():
                y = k2[key]
                kind = cm[key[0]]["kind"] if key[0] in cm else None
                for col in x:
                    lk = col.split(" ")[0]
                    if " limit " in col and kind is not None and lk not in applicable(kind):
                        continue
                    if not H.cell_equal(x[col], y[col], 1e-12):
                        diffs.append((key[0], col, x[col], y[col]))
        ctx.check("%s.params" % prefix, not diffs, {"differences(original, reloaded)": diffs[:8]})
    else:
        ctx.check("%s.params" % prefix, s1 == s2, {"original": s1, "reloaded": s2})


def keyed_diff(r1, r2, keys):
    if r1 is None or r2 is None:
        return [] if (r1 is None and r2 is None) or (_empty(r1) and _empty(r2)) else [("one is None", repr(type(r1)), repr(type(r2)))]
    k1, k2 = H.keyed_rows(r1, keys), H.keyed_rows(r2, keys)
    if sorted(r1.columns) != sorted(r2.columns):
        return [("columns", list(r1.columns), list(r2.columns))]
    if set(k1) != set(k2):
        return [("row keys", sorted(map(str, set(k1) ^ set(k2)))[:8])]
    out = []
    for key, x in k1.items():
        y = k2[key]
        for col in x:
            if not _cell(x[col], y[col]):
                out.append((key, col, x[col], y[col]))
    return out


def _cell(u, v):
    if M.num(u) and M.num(v):
        return H.cell_equal(u, v, 1e-9) or abs(u - v) <= 1e-12
    if isinstance(u, str) and isinstance(v, str) and ("," in u or " " in u):
        return set(u.replace(",", " ").split()) == set(v.replace(",", " ").split())
    return H.cell_equal(u, v)


def _empty(r):
    return r is None or len(r) == 0


def json_diff(a, b, path=""):
    out = []
    if isinstance(a, dict) and isinstance(b, dict):
        for k in sorted(set(a) | set(b)):
            if k not in a or k not in b:
                out.append((path + "/" + k, "only in " + ("original" if k in a else "reloaded")))
            else:
                out += json_diff(a[k], b[k], path + "/" + k)
    elif isinstance(a, list) and isinstance(b, list):
        if len(a) != len(b):
            out.append((path, "list length", len(a), len(b)))
        else:
            if a and all(isinstance(x, dict) and "params" in x for x in a):
                # child lists: order of siblings is not a property of the system
                ka = {x["params"]["name"]: x for x in a}
                kb = {x["params"]["name"]: x for x in b if isinstance(x, dict) and "params" in x}
                out += json_diff(ka, kb, path)
            else:
                for i, (x, y) in enumerate(zip(a, b)):
                    out += json_diff(x, y, "%s[%d]" % (path, i))
    else:
        if not (a == b and type(a) == type(b)) and not (M.num(a) and M.num(b) and a == b):
            out.append((path, a, b))
    return out[:20]


def structure_diff(spec, sysobj):
    """Compare the spec's structure with the live graph of a System (read directly)."""
    out = []
    g = sysobj._g
    nodes = g.attrs["nodes"]
    names = set(c["name"] for c in spec["comps"])
    if set(nodes) != names:
        out.append(("component set", sorted(names ^ set(nodes))))
        return out
    try:
        par = sysobj._get_parents()
    except Exception as e:  # noqa: BLE001 - e.g. a stale PMux input name resolving to node -1
        par = None
        out.append(("<parents>", "input order unreadable", H.exc_sig(e)))
    for c in spec["comps"]:
        idx = nodes[c["name"]]
        obj = g[idx]
        if type(obj).__name__ != c["kind"]:
            out.append((c["name"], "kind", c["kind"], type(obj).__name__))
        try:
            if par is not None:
                p = par[idx]
                got = [] if p == -1 else [g[i]._params["name"] for i in p]
                same = got == c["parents"]
            else:
                got = sorted(g[i]._params["name"] for i in g.predecessor_indices(idx))
                same = got == sorted(c["parents"])
        except Exception as e:  # noqa: BLE001
            got, same = H.exc_sig(e), False
        if not same:
            out.append((c["name"], "parents", c["parents"], got))
        if g.attrs["groups"].get(c["name"]) != c.get("group", ""):
            out.append((c["name"], "group", c.get("group", ""), g.attrs["groups"].get(c["name"])))
        want_rail = "" if c["kind"] in S.LOADS else c.get("rail", "")
        if g.attrs["rails"].get(c["name"]) != want_rail:
            out.append((c["name"], "rail", want_rail, g.attrs["rails"].get(c["name"])))
    return out
