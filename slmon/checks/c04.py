"""C04 - a dead supply rail isolates everything below it; sleeping elements draw exactly their sleep current."""

import copy

from .. import gen as G, model as M, spec as S
from . import _rows

PROP = "C04"
LEVEL = "exploration"
ANCHORS = ["_solv_", "_calc_inp_current", "_get_state", "_get_outp_voltage", "_sys_init"]  # functions whose reached lines are reported in the evidence
RULE = (
    "cases = random SystemSpecs in which 1-3 dead elements are planted at random depths (0 V source, source / "
    "converter / regulator / switch / mux inactive in some phases, LinReg with |vi|<=vdrop, mux whose inputs are "
    "all dead; dead elements also below other dead elements and as one of several mux inputs). The set of "
    "components that must be dead is derived from the spec (transitive closure) and every such row, in every "
    "phase, must be all-zero; every sleeping element on a live supply must show Vout=0, Iin=iis, P=L=iis*|Vin|. "
    "Non-trivial = some phase has a dead subtree of depth>=2 containing a load; distinct = canonical spec hash"
)
REQUIRED = ["dead.closure", "dead.zero", "dead.sleep", "dead.live_supply"]
SIZES = {"quick": 300, "thorough": 2000}
ASSUMPTIONS = ["'zero' is checked as exact 0.0 (the code returns literal zeros on these paths and the property says zero)"]
ACCEPT = ("rows.", "finite", "dead.")


def plant(rng, spec):
    """Plant dead elements into a copy of spec; returns (spec, causes)."""
    spec = copy.deepcopy(spec)
    cm = S.comp_map(spec)
    ch = S.children_map(spec)
    phases = list((spec.get("phases") or {}).keys())
    cands = [c for c in spec["comps"] if c["kind"] not in S.LOADS and ch[c["name"]]]
    rng.shuffle(cands)
    causes = []
    for c in cands[: rng.randint(1, 3)]:
        k = c["kind"]
        opts = []
        if k == "Source":
            opts.append("zero_volt")
        if k in S.ACTIVE_LIST_KINDS and phases:
            opts.append("inactive")
        if k == "LinReg":
            opts.append("dropout_dead")
        if k == "PMux":
            opts.append("inputs_dead")
        if not opts:
            # make the nearest source above it dead instead
            p = c
            while p["parents"]:
                p = cm[p["parents"][0]]
            c, k, opts = p, "Source", ["zero_volt"] + (["inactive"] if phases else [])
        how = rng.choice(opts)
        if how == "zero_volt":
            c["args"]["vo"] = rng.choice([0.0, 0, -0.0])
        elif how == "inactive":
            keep = [p for p in phases if rng.random() < 0.4]
            if len(keep) == len(phases):
                keep = keep[:-1]
            if not keep:
                keep = ["ghost"]  # configured, but for a phase the system does not have: never active
            c["phase"] = keep
        elif how == "dropout_dead":
            c["args"]["vo"] = G.sig(1000.0)
            c["args"]["vdrop"] = G.sig(900.0)
        elif how == "inputs_dead":
            for p in c["parents"]:
                q = cm[p]
                while q["parents"]:
                    q = cm[q["parents"][0]]
                q["args"]["vo"] = 0.0
        causes.append("%s:%s" % (k, how))
    return spec, causes


def gen(rng, i, tier):
    big = tier == "thorough"
    base = G.gen_system(
        rng, n_comp=(4, 30 if big else 16), n_src=(1, 4) if rng.random() < 0.5 else (1, 1), mux=0.45,
        polarity=rng.choice(["pos", "neg", "any"]), regime="benign", tables=rng.choice([0.0, 0.4]),
        phases=0.65, max_depth=rng.choice([4, 6, 10]), sleep=0.8, iq=0.6, shape=rng.choice([None, "chain", "bushy"]),
        phase_conf=0.4, rails=rng.choice([0.0, 0.4]),
    )
    if i % 5 == 2:
        base = G.variantise_phases(base, rng)  # two phases that differ only in case / blanks
    spec, causes = plant(rng, base)
    case = {"spec": spec, "tol": 1e-6, "ta": 25.0, "causes": causes}
    case.update(_rows.random_call_context(rng))
    return case


def supply_live(spec, rows, phase):
    """From the SPEC (plus the table's Vin only to decide LinReg drop-out): is each component's output live?"""
    cm = S.comp_map(spec)
    out, sup = {}, {}
    for c in spec["comps"]:
        n, k = c["name"], c["kind"]
        beh = M.behaviour(c, phase)
        if k == "Source":
            sup[n] = True
            out[n] = c["args"]["vo"] != 0.0 and beh["active"]
            continue
        s_live = any(out[p] for p in c["parents"])
        sup[n] = s_live
        if k in S.LOADS:
            out[n] = False
        elif k == "Converter":
            out[n] = s_live and beh["active"] and c["args"]["vo"] != 0.0
        elif k == "LinReg":
            out[n] = s_live and beh["active"] and abs(rows[n][M.COLS["vin"]]) > abs(c["args"].get("vdrop", 0.0))
        else:
            out[n] = s_live and beh["active"]
    return sup, out


def run(ctx, case):
    df, info, _ = _rows.solve_and_judge(ctx, case, ACCEPT)
    spec = case["spec"]  # the effective spec (a build history may have reset phase configurations)
    if df is None:
        return
    order, per, _ = M.split_table(df)
    nontrivial = False
    ch = S.children_map(spec)
    for ph in order:
        rows = per[ph]["rows"]
        if set(rows) != set(c["name"] for c in spec["comps"]):
            continue
        sup, out = supply_live(spec, rows, ph)
        for c in spec["comps"]:
            n = c["name"]
            r = rows[n]
            vals = [r[M.COLS[k]] for k in ("vout", "iin", "iout", "p", "l")]
            if c["kind"] == "Source":
                if not out[n]:
                    ctx.check("dead.closure", all(v == 0.0 for v in vals) and r[M.COLS["vin"]] == 0.0,
                              {"row": n, "kind": c["kind"], "phase": ph, "values": M._rowvals(r), "why": "dead source"})
                continue
            if not sup[n]:
                ok = all(v == 0.0 for v in vals) and r[M.COLS["vin"]] == 0.0
                ctx.check("dead.closure", ok, {"row": n, "kind": c["kind"], "phase": ph, "values": M._rowvals(r),
                                               "why": "supply is dead by construction", "causes": case.get("causes")})
                ctx.see("dead_kinds", c["kind"])
                if c["kind"] in S.LOADS:
                    # depth of dead chain above this load
                    d, p = 0, c
                    cm = S.comp_map(spec)
                    while p["parents"] and not sup[p["name"]]:
                        d += 1
                        p = cm[p["parents"][0]]
                    if d >= 2:
                        nontrivial = True
            else:
                ctx.check("dead.live_supply", r[M.COLS["vin"]] != 0.0,
                          {"row": n, "kind": c["kind"], "phase": ph, "values": M._rowvals(r),
                           "why": "supply is live by construction but the row reads Vin=0"})
    for cz in case.get("causes", []):
        ctx.see("causes", cz)
    _rows.observe(ctx, spec)
    if nontrivial:
        ctx.nontrivial(S.canonical(spec))
    ctx.sample({"spec": _rows.short(spec), "causes": case.get("causes")})
