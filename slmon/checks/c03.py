"""C03 - solve() returns only converged, finite, physical steady states, else raises RuntimeError/ValueError;
benign systems are solved with default settings; never more than maxiter+1 sweeps."""

import math

from .. import gen as G, harness as H, loader, model as M, spec as S
from . import _rows

PROP = "C03"
LEVEL = "exploration"
ANCHORS = ["System._solve", "System.solve", "_solv_outp_volt"]  # functions whose reached lines are reported in the evidence
RULE = (
    "cases = random SystemSpecs in benign / heavy / overloaded regimes plus an enumerated family of "
    "constant-power and constant-current loads behind each of the seven series-element forms with rs*I from "
    "0.3 to 5 x V, each solved under (vtol,itol) in {1e-2,1e-4,1e-6,1e-9,1e-12} and maxiter in "
    "{0,1,2,5,50,10000}. A wrapper around System._solve/_fwd_prop captures the returned iterate and the "
    "sweep count; after solve() returns, one more sweep of the code's own propagation is run on the captured "
    "iterate and must satisfy the same allclose predicate. Returned tables must be finite, obey the reference "
    "laws within the REQUESTED tolerance and keep the polarity of every passive series element; exceptions must "
    "be RuntimeError or ValueError; sweeps <= maxiter+1. Benign specs (reference steady state exists with every "
    "node >= 80 % of its regulated origin) must be solved by default settings and agree with the reference. "
    "Non-trivial = a case whose outcome was decided on >= 3 components (returned and re-swept, or raised); "
    "distinct = canonical spec hash + settings"
)
REQUIRED = ["finite", "converged.resweep", "sweeps.bound", "sweeps.announced", "exception.type", "phys.polarity", "phys.no_gain",
            "law.vout", "law.iin", "benign.solved", "benign.matches_reference", "benign.tighter_is_closer", "overload.decided",
            "benign.solved_after_edit"]
SIZES = {"quick": 260, "thorough": 1600}
ASSUMPTIONS = [
    "the literal loop bound of the code is maxiter+1 sweeps (while iters <= maxiter); the monitor uses that bound",
    "'modest' is defined conservatively: every node keeps >= 80 % of the voltage of its nearest regulated ancestor "
    "in the reference steady state (damped Gauss-Seidel on the documented laws, residual < 1e-13)",
]

_probe = {"solves": [], "sweeps": 0}


def setup(ctx):
    ns = loader.load()
    Sy = ns.System
    if getattr(Sy._solve, "_slmon", False):
        return
    orig_solve, orig_fwd = Sy._solve, Sy._fwd_prop

    def _solve(self, vtol=1e-5, itol=1e-6, maxiter=10000, quiet=True, phase=""):
        before = _probe["sweeps"]
        rec = {"phase": phase, "vtol": vtol, "itol": itol, "maxiter": maxiter, "returned": False}
        _probe["solves"].append(rec)
        try:
            v, i, iters, state = orig_solve(self, vtol, itol, maxiter, quiet, phase)
        finally:
            rec["sweeps"] = _probe["sweeps"] - before
        rec.update(returned=True, v=v, i=i, iters=iters, state=state)
        return v, i, iters, state

    def _fwd_prop(self, *a, **k):
        _probe["sweeps"] += 1
        return orig_fwd(self, *a, **k)

    _solve._slmon = True
    Sy._solve, Sy._fwd_prop = _solve, _fwd_prop


SETTINGS = [(1e-6, 10000)] * 4 + [(1e-2, 10000), (1e-4, 10000), (1e-9, 10000), (1e-12, 10000), (1e-6, 0), (1e-6, 1),
                                  (1e-6, 2), (1e-6, 5), (1e-6, 50), (1e-9, 50)]


def gen(rng, i, tier):
    case = _gen(rng, i, tier)
    # vtol and itol are independent settings: sometimes one is (much) tighter than the other
    r = rng.random()
    if case["mode"] != "benign" and r < 0.35:
        case["itol"] = rng.choice([1e-3, 1e-6, 1e-9, 1e-11])
    elif case["mode"] != "benign" and r < 0.5:
        case["vtol"] = rng.choice([1e-3, 1e-9, 1e-11])
    if rng.random() < 0.3:
        case["gaps"] = rng.choice([1, 2, 3, 5])
    case["verbose"] = rng.random() < 0.25
    return case


def _gen(rng, i, tier):
    big = tier == "thorough"
    mode = rng.choice(["benign", "benign", "heavy", "overload", "family"])
    tol, maxiter = rng.choice(SETTINGS)
    if mode == "family":
        return {"spec": family(rng), "tol": tol, "maxiter": maxiter, "mode": mode, "ta": 25.0}
    spec = G.gen_system(
        rng, n_comp=(2, 24 if big else 12), n_src=(1, 3) if rng.random() < 0.3 else (1, 1), mux=0.3,
        polarity=rng.choice(["pos", "pos", "neg", "any"]), regime=mode, tables=rng.choice([0.0, 0.3]),
        general2d=0.0 if mode == "benign" else 0.3, phases=0.2, max_depth=rng.choice([3, 6, 10]),
        shape=rng.choice([None, None, "chain"]), dead=rng.choice([0.0, 0.2]),
    )
    if mode == "benign":
        tol, maxiter = 1e-6, 10000  # clause (f) speaks about default settings
    return {"spec": spec, "tol": tol, "maxiter": maxiter, "mode": mode, "ta": 25.0}


def _c(name, kind, args, parents):
    return {"name": name, "kind": kind, "args": args, "parents": parents, "group": "", "rail": "", "limits": None,
            "phase": None}


def family(rng, series=None, load=None, f=None, V=None, neg=None):
    """Source - X - load with rs*I = f*V (no physical operating point for f >= 1 with an ILoad, f > 0.25 PLoad)."""
    series = series or rng.choice(["Source", "RLoss", "VLoss", "PSwitch", "PMux", "RectD", "RectM"])
    load = load or rng.choice(["ILoad", "PLoad"])
    f = f if f is not None else rng.choice([0.1, 0.3, 0.6, 0.9, 0.99, 1.0, 1.01, 1.2, 2.0, 5.0])
    V = V or G.lu(rng, 1.0, 60.0)
    neg = rng.random() < 0.3 if neg is None else neg
    I = G.lu(rng, 0.01, 3.0)
    rs = G.sig(f * V / I)
    sv = -V if neg else V
    comps = [_c("S", "Source", {"vo": sv, "rs": rs if (series == "Source" and not neg) else 0.0}, [])]
    if series == "Source" and neg:
        series = "RLoss"  # negative source with rs is finding F1; use an explicit series resistor instead
    par = "S"
    if series == "RLoss":
        comps.append(_c("X", "RLoss", {"rs": rs}, ["S"]))
    elif series == "VLoss":
        comps.append(_c("X", "VLoss", {"vdrop": G.sig(f * V)}, ["S"]))
    elif series == "PSwitch":
        comps.append(_c("X", "PSwitch", {"rs": rs}, ["S"]))
    elif series == "PMux":
        comps.append(_c("X", "PMux", {"rs": rs}, ["S"]))
    elif series == "RectD":
        comps.append(_c("X", "Rectifier", {"vdrop": G.sig(f * V / 2)}, ["S"]))
    elif series == "RectM":
        comps.append(_c("X", "Rectifier", {"rs": G.sig(rs / 2)}, ["S"]))
    if series != "Source":
        par = "X"
    if load == "ILoad":
        comps.append(_c("L", "ILoad", {"ii": I}, [par]))
    else:
        comps.append(_c("L", "PLoad", {"pwr": G.sig(V * I)}, [par]))
    return {"name": "family", "comps": comps, "phases": {}, "_meta": {"regime": "family", "series": series,
                                                                      "load": load, "f": f}}


def family_drop(spec):
    """Series drop at the load current, from the actual (rounded) numbers of the spec -> (drop, |V|)."""
    cm = S.comp_map(spec)
    V = abs(cm["S"]["args"]["vo"])
    I = cm["L"]["args"]["ii"]
    drop = abs(cm["S"]["args"].get("rs", 0.0)) * I
    if "X" in cm:
        x = cm["X"]
        a = x["args"]
        if x["kind"] in ("RLoss", "PSwitch", "PMux"):
            drop += abs(a.get("rs", 0.0)) * I
        elif x["kind"] == "VLoss":
            drop += abs(a["vdrop"])
        elif x["kind"] == "Rectifier":
            drop += 2 * abs(a["vdrop"]) if "vdrop" in a else 2 * abs(a.get("rs", 0.0)) * I
    return drop, V


def directed():
    import random

    rng = random.Random(5)
    out = []
    for series in ["Source", "RLoss", "VLoss", "PSwitch", "PMux", "RectD", "RectM"]:
        for load in ["ILoad", "PLoad"]:
            for f in [0.5, 1.5, 5.0]:
                out.append({"spec": family(rng, series, load, f, 5.0, False), "tol": 1e-6, "maxiter": 10000,
                            "mode": "family", "ta": 25.0})
    return out


def run(ctx, case):
    spec = case["spec"]
    tolv = case["tol"]
    vtol, itol = case.get("vtol", tolv), case.get("itol", tolv)
    tol = M.Tol(vtol, itol)
    ns = loader.load()
    gaps = case.get("gaps", 0)
    if gaps == 3 and case.get("zero_slot", True):
        # created with a scratch source that is deleted before the first non-source component joins: that component
        # takes the recycled node index 0 (see the row driver's scratch_first_source history)
        from . import _rows as _rw

        class _Ctx:
            count = staticmethod(lambda *a, **k: None)

        try:
            _, sysobj = _rw.build_with_history(_Ctx, spec, "scratch_first_source", case.get("qseed", 0) if isinstance(case.get("qseed"), int) else 0)
            st = "ok"
        except Exception as e:  # noqa: BLE001
            st, sysobj = "raise", e
        ctx.count("built", "with a non-source component at the recycled node index 0")
    elif gaps:
        # the same structure reached through an edit history that leaves `gaps` unfilled node indices
        # (scratch components added early and deleted at the end): the solver's vectors are indexed by node index
        first = spec["comps"][0]
        sysobj = ns.System(spec.get("name", "sys"), S.make_comp(ns, first), group=first.get("group", ""), rail=first.get("rail", ""))
        IL = ns.KINDS["ILoad"]
        for g_ in range(gaps):
            sysobj.add_comp(first["name"], comp=IL("~gap%d" % g_, ii=0.001))
        st = "ok"
        try:
            for c in spec["comps"][1:]:
                S.add_one(sysobj, spec, c, ns)
            S.apply_phase_conf(sysobj, spec)
            for g_ in range(gaps):
                sysobj.del_comp("~gap%d" % g_)
        except Exception as e:  # noqa: BLE001
            st, sysobj = "raise", e
        ctx.count("built", "with %d index gaps" % gaps)
    else:
        st, sysobj = H.try_build(spec)
    if st != "ok":
        raise RuntimeError("generator produced a spec the public API rejects: %s" % H.exc_sig(sysobj))
    _probe["solves"] = []
    verbose = case.get("verbose", False)
    with H.quiet() as out:
        st, df = H.solve(sysobj, vtol=vtol, itol=itol, maxiter=case["maxiter"], ta=case["ta"], quiet=not verbose)
    solves = list(_probe["solves"])
    if verbose and st == "ok":
        # solve(quiet=False) announces, per phase, the number of sweeps it actually performed
        import re

        said = [int(x) for x in re.findall(r"Tolerances met after (\d+) iterations", out.getvalue())]
        did = [rec["sweeps"] for rec in solves if rec["returned"]]
        ctx.check("sweeps.announced", said == did, {"announced": said, "performed": did})
    outcome = "returned" if st == "ok" else type(df).__name__
    ctx.count("outcome/" + case["mode"], outcome)
    det = {"settings": {"vtol": vtol, "itol": itol, "maxiter": case["maxiter"]}, "mode": case["mode"]}
    ctx.count("tolerances", "vtol%sitol" % ("=" if vtol == itol else ("<" if vtol < itol else ">")))
    # (e) sweep bound
    for rec in solves:
        ctx.check("sweeps.bound", rec["sweeps"] <= case["maxiter"] + 1,
                  dict(det, sweeps=rec["sweeps"], phase=rec["phase"]))
        ctx.count("sweeps", _bucket(rec["sweeps"]))
    # (d) exception type
    if st == "raise":
        ok = isinstance(df, (RuntimeError, ValueError))
        ctx.check("exception.type", ok, dict(det, exception=H.exc_sig(df), kinds=sorted(set(c["kind"] for c in spec["comps"]))))
    else:
        # (a) finite + (c) physical + law residual at the requested tolerance
        em = H.Emit(ctx, accept=("finite", "phys.", "law.", "rows."), extra=det)
        M.check_table(em, spec, df, tol, case["ta"])
        # (b) one more sweep of the code's own propagation must reproduce the iterate
        np = ns.np
        for rec in solves:
            if not rec["returned"]:
                continue
            ok_iters = rec["iters"] <= case["maxiter"]
            v, i, state, ph = rec["v"], rec["i"], rec["state"], rec["phase"]
            vi, _ = sysobj._fwd_prop(v, i, ph, state)
            ii = sysobj._back_prop(vi, i, ph, state)
            okc = bool(np.allclose(np.array(v), np.array(vi), rtol=vtol) and np.allclose(np.array(i), np.array(ii), rtol=itol))
            ctx.check("converged.resweep", okc and ok_iters,
                      dict(det, phase=ph, iters=rec["iters"], max_dv=float(np.max(np.abs(np.array(v) - np.array(vi)))),
                           max_di=float(np.max(np.abs(np.array(i) - np.array(ii))))))
    # overloaded family: outcome must be decided correctly
    if case["mode"] == "family":
        m = spec["_meta"]
        if m["load"] == "ILoad":
            drop, V = family_drop(spec)
            feasible = drop < V * (1 - 1e-9)
            if abs(drop - V) <= 1e-9 * V:
                ctx.count("family", "boundary case drop == V (not judged)")
            elif not feasible and case["maxiter"] >= 50:
                ctx.check("overload.decided", st == "raise" and isinstance(df, (RuntimeError, ValueError)),
                          dict(det, family=m, outcome=outcome, why="no physical operating point: must raise"))
            elif feasible and drop <= 0.9 * V and case["maxiter"] >= 50 and min(vtol, itol) >= 1e-9:
                ctx.check("overload.decided", st == "ok", dict(det, family=m, outcome=H.exc_sig(df) if st != "ok" else "",
                                                               why="operating point exists (constant current): must solve"))
        ctx.see("family", "%s/%s/f=%s" % (m["series"], m["load"], m["f"]))
    # (f) benign -> default solve() must find the steady state
    if case["mode"] == "benign" and M.spec_is_exact(spec):
        benign(ctx, case, spec, st, df, det)
    _rows.observe(ctx, spec)
    if len(spec["comps"]) >= 3:
        ctx.nontrivial([S.canonical(spec), vtol, itol, case["maxiter"]])
    ctx.sample({"spec": _rows.short(spec), "settings": det["settings"], "outcome": outcome})


def benign(ctx, case, spec, st, df, det):
    phases = list((spec.get("phases") or {}).keys()) or [""]
    refs = {}
    try:
        for p in phases:
            refs[p] = M.refsolve(spec, p)
            okm, worst = M.modest(spec, refs[p])
            if not okm:
                ctx.count("benign", "not modest (worst %.1f) - undetermined" % (math.floor(worst * 10) / 10))
                return
    except M.NoSteadyState as e:
        ctx.count("benign", "no reference steady state - undetermined")
        return
    ctx.count("benign", "reference steady state exists, modest")
    ctx.check("benign.solved", st == "ok", dict(det, outcome=H.exc_sig(df) if st != "ok" else "returned"))
    if st != "ok":
        return
    _, per, _ = M.split_table(df)
    bad = []
    C = M.COLS
    for p in phases:
        rows = per[p]["rows"]
        tt = H.TwinTol(rows, rel=1e-4, k=20.0)
        for n, r in refs[p].items():
            x = rows[n]
            for k in ("vin", "vout"):
                if not tt.v(x[C[k]], r[k]):
                    bad.append((p, n, k, x[C[k]], r[k]))
            for k in ("iin", "iout"):
                if not tt.i(x[C[k]], r[k]):
                    bad.append((p, n, k, x[C[k]], r[k]))
    ctx.check("benign.matches_reference", not bad, dict(det, differences_table_vs_reference=bad[:6]))
    _what_if(ctx, case, spec, refs, phases, det)
    # tightening the tolerances tightens the answer: distance to the reference steady state must not grow
    st_, sysobj = H.try_build(spec)
    errs = {}
    for t in (1e-3, 1e-6, 1e-10):
        s2, d2 = H.solve(sysobj, vtol=t, itol=t)
        if s2 != "ok":
            errs[t] = None
            continue
        _, per2, _ = M.split_table(d2)
        e = 0.0
        for p in phases:
            tt = H.TwinTol(per2[p]["rows"], rel=0.0, k=20.0)  # absolute allowance from numpy's fixed atol=1e-8
            for n, r in refs[p].items():
                x = per2[p]["rows"][n]
                for k, allow in (("vout", tt.dV), ("iin", tt.dI)):
                    ref_v = r[k]
                    if abs(ref_v) > 0:
                        e = max(e, max(0.0, abs(x[C[k]] - ref_v) - allow) / abs(ref_v))
        errs[t] = e
    if all(v is not None for v in errs.values()):
        ok = errs[1e-10] <= max(errs[1e-6], 1e-9) * 1.5 + 1e-9 and errs[1e-6] <= max(errs[1e-3], 1e-7) * 1.5 + 1e-7 and errs[1e-10] <= 1e-6
        ctx.check("benign.tighter_is_closer", ok, dict(det, relative_error_vs_reference={str(k): v for k, v in errs.items()}))
    else:
        ctx.check("benign.solved_at_all_tolerances", errs[1e-3] is not None and errs[1e-6] is not None,
                  dict(det, errors={str(k): v for k, v in errs.items()}))


def _what_if(ctx, case, spec, refs, phases, det):
    """The same steady state must be found when the benign system is reached by EDITING an analysed one: first a
    variant with f-times the load and 1/f of every series resistance (same voltage drops, f-times the currents) is
    solved, then every changed component is replaced in place by the real one and the system is solved again."""
    import copy
    import random

    import json
    import zlib

    rng = random.Random(zlib.crc32(json.dumps(spec, sort_keys=True, default=repr).encode()) ^ 0x5EED)  # per-case choices
    f = rng.choice([30.0, 100.0, 1000.0])
    A = copy.deepcopy(spec)
    changed = []
    for c in A["comps"]:
        a, k = c["args"], c["kind"]
        if k in ("RLoss", "PSwitch", "Source", "RLoad") and isinstance(a.get("rs"), (int, float)) and a.get("rs"):
            a["rs"] = a["rs"] / f
        elif k == "ILoad":
            a["ii"] = a["ii"] * f
        elif k == "PLoad":
            a["pwr"] = a["pwr"] * f
        else:
            continue
        changed.append(c["name"])
    if not changed:
        return
    ns = loader.load()
    st, so = H.try_build(A)
    if st != "ok":
        return
    s1, _d = H.solve(so)
    on_copy = rng.random() < 0.4
    if on_copy:
        so = copy.deepcopy(so)  # the what-if edits are made on a deep copy of the analysed system
    cm = S.comp_map(spec)
    for n in changed:
        c = cm[n]
        so.change_comp(n, comp=S.make_comp(ns, c), group=c.get("group", ""), rail=c.get("rail", ""))
        if c.get("phase") is not None:
            so.set_comp_phases(n, copy.deepcopy(c["phase"]))
    s2, d2 = H.solve(so)
    det2 = dict(det, history="variant with x%g load currents and 1/%g series resistance solved (%s), %d components changed in place, solved again"
                % (f, f, "ok" if s1 == "ok" else "raised", len(changed)) + (" on a copy.deepcopy() of it" if on_copy else ""))
    ctx.check("benign.solved_after_edit", s2 == "ok", dict(det2, outcome=H.exc_sig(d2) if s2 != "ok" else "returned"))
    if s2 != "ok":
        return
    _, per, _ = M.split_table(d2)
    C = M.COLS
    bad = []
    for p in phases:
        rows = per[p]["rows"]
        tt = H.TwinTol(rows, rel=1e-4, k=20.0)
        for n, r in refs[p].items():
            x = rows[n]
            for k in ("vin", "vout"):
                if not tt.v(x[C[k]], r[k]):
                    bad.append((p, n, k, x[C[k]], r[k]))
            for k in ("iin", "iout"):
                if not tt.i(x[C[k]], r[k]):
                    bad.append((p, n, k, x[C[k]], r[k]))
    ctx.check("benign.solved_after_edit", not bad, dict(det2, differences_table_vs_reference=bad[:6]))


def _bucket(n):
    for b in (1, 2, 3, 5, 10, 20, 50, 100, 1000, 10001):
        if n <= b:
            return "<=%d" % b
    return ">10001"
