"""C20 - PCB trace and plane resistance follow the documented formulas.

Monitor: post-condition wrappers around sysloss.utils.trace_res / plane_res that
compare every return value with the closed form evaluated in exact rational
arithmetic, plus metamorphic relations checked on scaled re-invocations.
"""

import math
from fractions import Fraction as Fr

from .. import loader

PROP = "C20"
LEVEL = "exploration"
ANCHORS = ["trace_res", "plane_res"]  # functions whose reached lines are reported in the evidence
RULE = (
    "cases = keyword arguments for trace_res/plane_res drawn log-uniformly (dimensions over 12 decades, "
    "resistivity over 6, temp -200..500, tcr 0..0.1, defaults present/absent) plus the documentation "
    "examples; every call made (base and metamorphic re-invocations) passes through a post-condition "
    "wrapper that compares with the closed form in Fraction arithmetic; one case in five also passes one argument "
    "(temp, tcr, rho or the length; float or int dtype) as a numpy array, twice with the same array object, and "
    "requires every element of both results to equal the scalar call for that element; a case is non-trivial when all "
    "metamorphic relations were evaluated on a finite non-zero resistance; distinct = distinct argument dicts"
)
REQUIRED = [
    "trace.closed_form", "plane.closed_form", "trace.prop_length", "trace.prop_rho", "trace.inv_thickness",
    "trace.inv_mean_width", "trace.affine_temp", "trace.symmetry_w1w2", "plane.prop_length",
    "plane.prop_rho", "plane.inv_thickness", "plane.inv_width", "plane.affine_temp", "trace_eq_plane",
    "defaults", "trace.sweep_elementwise", "plane.sweep_elementwise",
]
SIZES = {"quick": 4000, "thorough": 40000}
ASSUMPTIONS = [
    "float evaluation of the formula may differ from the exact value by 1e-12 of the un-cancelled magnitude "
    "rho*L/A*(1+|tcr*(temp-20)|)",
    "documented default constants RHO=1.724e-8, TCR=0.00386, reference temperature 20 degC",
]

RHO_DOC = 1.724e-8
TCR_DOC = 0.00386
REL = 1e-12

_state = {}


def _exact_trace(k):
    a = (Fr(k["w1_mm"]) + Fr(k["w2_mm"])) / 2 * Fr(k["t_mm"]) / 1000
    base = Fr(k.get("rho", RHO_DOC)) * Fr(k["l_mm"]) / a
    x = Fr(k.get("tcr", TCR_DOC)) * (Fr(k.get("temp", 20.0)) - 20)
    return base * (1 + x), base * (1 + abs(x))


def _exact_plane(k):
    rs = Fr(k.get("rho", RHO_DOC)) / (Fr(k["t_mm"]) / 1000)
    base = rs * Fr(k["l"]) / Fr(k["w"])
    x = Fr(k.get("tcr", TCR_DOC)) * (Fr(k.get("temp", 20.0)) - 20)
    return base * (1 + x), base * (1 + abs(x))


def setup(ctx):
    ns = loader.load()
    _state["ns"] = ns
    _state["ctx"] = ctx
    u = ns.utils
    if getattr(u.trace_res, "_slmon", False):
        return
    orig_t, orig_p = u.trace_res, u.plane_res

    def trace_res(**k):
        r = orig_t(**k)
        if not _has_array(k):  # (array-valued calls are judged element by element in run())
            _post("trace", k, r, _exact_trace)
        return r

    def plane_res(**k):
        r = orig_p(**k)
        if not _has_array(k):
            _post("plane", k, r, _exact_plane)
        return r

    trace_res._slmon = plane_res._slmon = True
    u.trace_res, u.plane_res = trace_res, plane_res


def _has_array(k):
    return any(hasattr(v, "shape") and getattr(v, "shape", ()) != () for v in k.values())


def _post(which, k, r, exact):
    ctx = _state["ctx"]
    ex, scale = exact(k)
    ok = isinstance(r, float) and math.isfinite(r) and abs(Fr(r) - ex) <= Fr(REL) * scale
    ctx.check(which + ".closed_form", ok,
              lambda: {"fn": which + "_res", "kwargs": k, "returned": r, "expected": float(ex)})


def _close(ctx, clause, a, b, scale, detail):
    ok = math.isfinite(a) and math.isfinite(b) and abs(a - b) <= 16 * REL * scale
    ctx.check(clause, ok, lambda: dict(detail, lhs=a, rhs=b, scale=scale))


def _sweep(ctx, u, case, t, p, o):
    """One argument as a numpy array: every element of the result is the scalar formula of that element, also when
    the caller evaluates both functions (or one function twice) over the same array object."""
    import numpy as np

    sw = case["sweep"]
    arr = np.array(sw["values"], dtype=int if sw["dtype"] == "int" else float)
    for which, fn, base, key in (("trace", u.trace_res, dict(t, **o), "l_mm"), ("plane", u.plane_res, dict(p, **o), "l")):
        name = key if sw["param"] == "length" else sw["param"]
        expected = [fn(**dict(base, **{name: (int(v) if sw["dtype"] == "int" else float(v))})) for v in sw["values"]]
        for rep in (1, 2):  # the same array object is used for both calls, as in a user's sweep script
            try:
                got = fn(**dict(base, **{name: arr}))
                got = [float(x) for x in np.asarray(got, dtype=float).ravel()]
                outcome = ""
            except Exception as e:  # noqa: BLE001
                got, outcome = [], "%s: %s" % (type(e).__name__, e)
            ok = len(got) == len(expected) and all(
                math.isfinite(a) and abs(a - b) <= 1e-12 * max(abs(a), abs(b)) + 1e-300 for a, b in zip(got, expected))
            ctx.check(which + ".sweep_elementwise", ok,
                      lambda: {"fn": which + "_res", "swept": name, "dtype": sw["dtype"], "values": sw["values"], "call": rep,
                               "returned": got, "expected_per_element": expected, "outcome": outcome,
                               "array_after_call": [float(x) for x in arr]})
    # a result the caller still HOLDS must survive later sweeps of the same shape (by either function)
    name_t = "l_mm" if sw["param"] == "length" else sw["param"]
    name_p = "l" if sw["param"] == "length" else sw["param"]
    try:
        held = u.trace_res(**dict(dict(t, **o), **{name_t: arr}))
        want = [float(x) for x in np.asarray(held, dtype=float).ravel()]
        other = arr * 1.5 + (1 if sw["dtype"] == "int" else 0.5)
        u.trace_res(**dict(dict(t, **o), **{name_t: other}))
        u.plane_res(**dict(dict(p, **o), **{name_p: other}))
        now = [float(x) for x in np.asarray(held, dtype=float).ravel()]
        ctx.check("trace.sweep_elementwise", now == want,
                  lambda: {"fn": "trace_res", "swept": name_t, "why": "an array returned earlier changed when later sweeps were evaluated",
                           "returned_then": want, "same_object_now": now})
    except Exception as e:  # noqa: BLE001
        ctx.check("trace.sweep_elementwise", False, lambda: {"fn": "trace_res", "swept": name_t, "outcome": "%s: %s" % (type(e).__name__, e)})
    ctx.count("sweep", "%s/%s" % (sw["param"], sw["dtype"]))


def _lu(rng, lo, hi):
    return 10 ** rng.uniform(lo, hi)


def gen(rng, i, tier):
    c = rng.uniform(-6, 6)  # centre decade; keep ratios inside float range
    t = {
        "w1_mm": _lu(rng, c - 3, c + 3), "w2_mm": _lu(rng, c - 3, c + 3), "l_mm": _lu(rng, -6, 6),
        "t_mm": _lu(rng, -6, 3),
    }
    p = {"w": _lu(rng, -6, 6), "l": _lu(rng, -6, 6), "t_mm": t["t_mm"]}
    opt = {}
    if rng.random() < 0.7:
        opt["rho"] = _lu(rng, -9, -3)
    if rng.random() < 0.7:
        opt["temp"] = rng.choice([20.0, rng.uniform(-200, 500), float(rng.randint(-200, 500))])
    if rng.random() < 0.6:
        opt["tcr"] = rng.choice([0.0, rng.uniform(0, 0.1), _lu(rng, -6, -1)])
    if rng.random() < 0.1:
        t = {k: float(round(v, 3)) or 1.0 for k, v in t.items()}
    k = rng.choice([2.0, 3.0, 0.1, rng.uniform(0.01, 100.0), _lu(rng, -3, 3)])
    case = {"trace": t, "plane": p, "opt": opt, "k": k, "t2": rng.uniform(-200, 500)}
    if rng.random() < 0.2:
        # a parameter sweep: one argument given as a numpy array (the formulas are element-wise)
        par = rng.choice(["temp", "temp", "tcr", "rho", "length"])
        if par == "temp":
            vals = [float(rng.randint(-55, 150)) for _ in range(rng.randint(2, 5))]
            dtype = rng.choice(["float", "float", "int"])
        elif par == "tcr":
            vals, dtype = [rng.uniform(0, 0.01) for _ in range(3)], "float"
        elif par == "rho":
            vals, dtype = [_lu(rng, -9, -6) for _ in range(3)], "float"
        else:
            vals, dtype = [_lu(rng, -2, 3) for _ in range(4)], "float"
        case["sweep"] = {"param": par, "values": vals, "dtype": dtype}
    return case


def directed():
    return [
        {"trace": {"w1_mm": 1, "w2_mm": 1, "l_mm": 15, "t_mm": 35e-3}, "plane": {"w": 25, "l": 80, "t_mm": 35e-3},
         "opt": {}, "k": 2.0, "t2": 50.0},
        {"trace": {"w1_mm": 7 * 0.0254, "w2_mm": 6 * 0.0254, "l_mm": 350 * 0.0254, "t_mm": 2 * 0.034798},
         "plane": {"w": 800, "l": 500, "t_mm": 2 * 0.034798}, "opt": {"temp": 50}, "k": 3.0, "t2": -40.0},
    ]


def run(ctx, case):
    _state["ctx"] = ctx
    u = _state["ns"].utils
    t, p, o, k = dict(case["trace"]), dict(case["plane"]), dict(case["opt"]), case["k"]
    d = {"case_k": k}
    ta = dict(t, **o)
    pa = dict(p, **o)
    R = u.trace_res(**ta)
    P = u.plane_res(**pa)
    tcr = o.get("tcr", TCR_DOC)
    temp = o.get("temp", 20.0)
    # magnitude before cancellation in (1+tcr*(temp-20))
    fac = 1 + abs(tcr * (temp - 20.0))
    sR = abs(R) if abs(1 + tcr * (temp - 20.0)) > 1e-3 else None
    baseR = RHO_DOC if "rho" not in o else o["rho"]
    magR = baseR * t["l_mm"] / (0.5 * (t["w1_mm"] + t["w2_mm"]) * t["t_mm"] / 1e3) * fac
    magP = baseR / (p["t_mm"] / 1e3) * p["l"] / p["w"] * fac
    # --- trace relations ---------------------------------------------------
    _close(ctx, "trace.prop_length", u.trace_res(**dict(ta, l_mm=t["l_mm"] * k)), k * R, k * magR, d)
    rho0 = o.get("rho", RHO_DOC)
    _close(ctx, "trace.prop_rho", u.trace_res(**dict(ta, rho=rho0 * k)), k * R, k * magR, d)
    _close(ctx, "trace.inv_thickness", u.trace_res(**dict(ta, t_mm=t["t_mm"] * k)), R / k, magR / k, d)
    _close(ctx, "trace.inv_mean_width",
           u.trace_res(**dict(ta, w1_mm=t["w1_mm"] * k, w2_mm=t["w2_mm"] * k)), R / k, magR / k, d)
    m = 0.5 * (t["w1_mm"] + t["w2_mm"])
    _close(ctx, "trace.inv_mean_width", u.trace_res(**dict(ta, w1_mm=m, w2_mm=m)), R, magR, d)
    _close(ctx, "trace.symmetry_w1w2", u.trace_res(**dict(ta, w1_mm=t["w2_mm"], w2_mm=t["w1_mm"])), R, magR, d)
    # affine in temperature: R(T) = R(20) * (1 + tcr*(T-20)), and midpoint rule
    t2 = case["t2"]
    R20 = u.trace_res(**dict(ta, temp=20.0))
    Rt2 = u.trace_res(**dict(ta, temp=t2))
    Rmid = u.trace_res(**dict(ta, temp=0.5 * (temp + t2)))
    fac2 = 1 + abs(tcr * (t2 - 20.0))
    mag2 = magR / fac * max(fac, fac2)
    _close(ctx, "trace.affine_temp", Rt2, R20 * (1 + tcr * (t2 - 20.0)), mag2, d)
    _close(ctx, "trace.affine_temp", Rmid, 0.5 * (R + Rt2), mag2, d)
    # --- plane relations ---------------------------------------------------
    _close(ctx, "plane.prop_length", u.plane_res(**dict(pa, l=p["l"] * k)), k * P, k * magP, d)
    _close(ctx, "plane.prop_rho", u.plane_res(**dict(pa, rho=rho0 * k)), k * P, k * magP, d)
    _close(ctx, "plane.inv_thickness", u.plane_res(**dict(pa, t_mm=p["t_mm"] * k)), P / k, magP / k, d)
    _close(ctx, "plane.inv_width", u.plane_res(**dict(pa, w=p["w"] * k)), P / k, magP / k, d)
    P20 = u.plane_res(**dict(pa, temp=20.0))
    Pt2 = u.plane_res(**dict(pa, temp=t2))
    magP2 = magP / fac * max(fac, fac2)
    _close(ctx, "plane.affine_temp", Pt2, P20 * (1 + tcr * (t2 - 20.0)), magP2, d)
    # --- trace with w1=w2=W, l_mm=L equals plane with w=W, l=L -----------------
    W, L = p["w"], p["l"]
    _close(ctx, "trace_eq_plane", u.trace_res(**dict(o, w1_mm=W, w2_mm=W, l_mm=L, t_mm=p["t_mm"])), P, magP, d)
    # --- defaults are the documented constants -------------------------------
    dflt = u.trace_res(**t)
    expl = u.trace_res(**dict(t, rho=RHO_DOC, temp=20.0, tcr=TCR_DOC))
    _close(ctx, "defaults", dflt, expl, abs(expl), d)
    dflp = u.plane_res(**p)
    expp = u.plane_res(**dict(p, rho=RHO_DOC, temp=20.0, tcr=TCR_DOC))
    _close(ctx, "defaults", dflp, expp, abs(expp), d)
    if case.get("sweep"):
        _sweep(ctx, u, case, t, p, o)
    if sR is not None and R != 0.0 and math.isfinite(R) and P != 0.0:
        ctx.nontrivial([t, p, o])
    ctx.sample({"trace_res_kwargs": ta, "returned": R, "plane_res_kwargs": pa, "returned_plane": P})
    ctx.count("temp_factor_sign", "neg" if 1 + tcr * (temp - 20.0) < 0 else "pos")
    ctx.count("decade_R", int(math.floor(math.log10(abs(R)))) if R else "zero")
