"""C06 - load phases: every phase is solved with each component's behaviour for that phase."""

import copy

from .. import gen as G, harness as H, model as M, spec as S
from . import _rows

PROP = "C06"
LEVEL = "exploration"
ANCHORS = ["_solv_inp_curr", "_set_phase_lkup", "set_sys_phases", "set_comp_phases", "System.solve", "_get_inp_current", "_get_outp_voltage"]  # functions whose reached lines are reported in the evidence
RULE = (
    "cases = random SystemSpecs with 2-5 system phases (durations 1e-3..1e5 s) and random per-component phase "
    "configurations (value tables on loads, active-phase lists on sources/converters/regulators/switches/mux; "
    "empty configurations; configurations naming phases the system does not have; configured before or after "
    "set_sys_phases). Monitors: (i) every phase-p row obeys the phase-aware reference laws; (ii) solve(phase=p) "
    "equals the phase-p slice of solve() cell by cell; (iii) unknown phase -> ValueError; (iv) a substitution "
    "twin without phases (loads carry their phase value, inactive sources are 0 V sources, sleeping elements "
    "are replaced by an ILoad of their sleep current) gives the same rows; (v) with no component configured, "
    "every phase equals the phase-less solve. Non-trivial = >=2 components configured and >=2 phases in which "
    "the behaviour of some component differs; distinct = canonical spec hash"
)
REQUIRED = ["law.vout", "law.iin", "link.vin", "dead.zero", "slice.equal", "unknown_phase.rejected",
            "twin.substitution", "unconfigured.same_as_phaseless"]
SIZES = {"quick": 160, "thorough": 1200}
ASSUMPTIONS = ["phase values are positive (set_comp_phases does not normalise signs and the property is silent on negative phase values)"]
ACCEPT = ("rows.", "finite", "link.", "law.", "dead.", "energy.load", "energy.power")


def gen(rng, i, tier):
    big = tier == "thorough"
    spec = G.gen_system(
        rng, n_comp=(3, 24 if big else 12), n_src=(1, 3) if rng.random() < 0.4 else (1, 1), mux=0.3,
        polarity=rng.choice(["pos", "pos", "neg", "any"]), regime="benign", tables=rng.choice([0.0, 0.3]),
        phases=1.0, phase_conf=rng.choice([0.4, 0.7, 0.9]), sleep=0.8, iq=0.6, max_depth=rng.choice([3, 6]),
        rails=rng.choice([0.0, 0.3]), rt=0.3,
    )
    if i % 5 == 3:
        spec = G.variantise_phases(spec, rng)  # two phases that differ only in case / blanks
    return {"spec": spec, "tol": 1e-6, "ta": 25.0, "history": rng.choice(_rows.HISTORIES), "hseed": rng.randrange(1 << 30)}


def directed():
    return []


def run(ctx, case):
    df, info, sysobj = _rows.solve_and_judge(ctx, case, ACCEPT)
    spec = case["spec"]  # (the effective spec: a history may have reset some phase configurations)
    phases = list(spec["phases"].keys())
    # (iii) unknown phase
    # (fragments, extensions and case variants of a defined name are unknown phases too)
    for bad in ("ghost", "nope", phases[0] + " ", phases[-1][:-1], phases[0] + "2", phases[0].swapcase(), phases[-1][1:]):
        if bad in phases or bad == "":
            continue
        st, r = H.solve(sysobj, phase=bad)
        ctx.check("unknown_phase.rejected", st == "raise" and isinstance(r, ValueError),
                  {"phase": bad, "outcome": "returned" if st == "ok" else H.exc_sig(r)})
    if df is None:
        return
    kw = dict(vtol=case["tol"], itol=case["tol"], ta=case["ta"])
    # (ii) slice equality
    full = df[df["Component"] != "System average"]
    for p in phases:
        st, one = H.solve(sysobj, phase=p, **kw)
        if st != "ok":
            ctx.check("slice.equal", False, {"phase": p, "why": "solve(phase=p) raised " + H.exc_sig(one)})
            continue
        sl = full[full["Phase"] == p].reset_index(drop=True)
        diffs = []
        for col in sl.columns:
            if col in one.columns:
                for i, (u, v) in enumerate(zip(sl[col].tolist(), one[col].tolist())):
                    if not H.cell_equal(u, v):
                        diffs.append((i, col, u, v))
            elif any(x != "" for x in sl[col].tolist()):
                diffs.append(("column only in all-phase result", col))
        if len(sl) != len(one) or [c for c in one.columns if c not in sl.columns]:
            diffs.append(("shape", list(sl.shape), list(one.shape)))
        ctx.check("slice.equal", not diffs, {"phase": p, "differences": diffs[:6]})
    # (iv) substitution twin
    order, per, _ = M.split_table(df)
    differing = 0
    for p in phases:
        if p not in per:
            continue
        twin, dropped, slept = substitute(spec, p, per[p]["rows"])
        st, t = H.try_build(twin)
        if st != "ok":
            raise RuntimeError("substitution twin rejected: %s" % H.exc_sig(t))
        tight = dict(vtol=1e-10, itol=1e-10, ta=case["ta"])
        st, dft = H.solve(t, **tight)
        st0, dfo = H.solve(sysobj, phase=p, **tight)
        if st != "ok" or st0 != "ok":
            ctx.count("twin", "undetermined: tight solve raised")
            continue
        _, pt, _ = M.split_table(dft)
        _, po, _ = M.split_table(dfo)
        rt, rp = pt[""]["rows"], po[p]["rows"]
        if H.noload_unresolved(rt, rp):
            ctx.count("twin", "undetermined: a converter / rectifier output current below the solver's 1e-8 A resolution decides between iq and the loaded law")
            continue
        tt = H.TwinTol(rp, rows2=rt)
        bad = []
        C = M.COLS
        for n, x in rt.items():
            y = rp.get(n)
            if n in slept:
                if not tt.i(x[C["iin"]], y[C["iin"]]):
                    bad.append((n, "iin", y[C["iin"]], x[C["iin"]]))
                continue
            for k in ("vin", "vout"):
                if not tt.v(x[C[k]], y[C[k]]):
                    bad.append((n, k, y[C[k]], x[C[k]]))
            for k in ("iin", "iout"):
                if not tt.i(x[C[k]], y[C[k]]):
                    bad.append((n, k, y[C[k]], x[C[k]]))
            for k in ("p", "l"):
                if not tt.p(x[C[k]], y[C[k]], y[C["vin"]], y[C["iin"]]):
                    bad.append((n, k, y[C[k]], x[C[k]]))
        for n in dropped:
            y = rp[n]
            if any(y[M.COLS[k]] != 0.0 for k in ("vin", "vout", "iin", "iout", "p", "l")):
                bad.append((n, "below a sleeping element but not quiescent"))
        ctx.check("twin.substitution", not bad, {"phase": p, "differences(phase row, twin row)": bad[:6],
                                                "slept": sorted(slept)})
    # behaviours that differ across phases
    conf = [c for c in spec["comps"] if c.get("phase")]
    for c in conf:
        b = set(repr(M.behaviour(c, p)) for p in phases)
        if len(b) > 1:
            differing += 1
        ctx.see("configured_kinds", c["kind"])
    # (v) no component configured -> every phase equals the phase-less solve
    bare = copy.deepcopy(spec)
    for c in bare["comps"]:
        c["phase"] = None
    nop = copy.deepcopy(bare)
    nop["phases"] = {}
    st1, a = H.try_build(bare)
    st2, b = H.try_build(nop)
    s1, da = H.solve(a, **kw)
    s2, db = H.solve(b, **kw)
    if s1 == "ok" and s2 == "ok":
        _, pa, _ = M.split_table(da)
        _, pb, _ = M.split_table(db)
        bad = []
        for p in phases:
            for n, x in pa[p]["rows"].items():
                y = pb[""]["rows"][n]
                for k in ("vin", "vout", "iin", "iout", "p", "l", "eff"):
                    if not H.cell_equal(x[M.COLS[k]], y[M.COLS[k]]):
                        bad.append((p, n, k, x[M.COLS[k]], y[M.COLS[k]]))
        ctx.check("unconfigured.same_as_phaseless", not bad, {"differences": bad[:6]})
    elif s1 != s2:
        ctx.check("unconfigured.same_as_phaseless", False, {"why": "one raised, the other did not", "with_phases": s1,
                                                             "without": s2})
    _rows.observe(ctx, spec)
    if len(conf) >= 2 and differing >= 1:
        ctx.nontrivial(S.canonical(spec))
    ctx.sample({"spec": _rows.short(spec)})


def substitute(spec, p, rows):
    """Phase-free twin of `spec` in phase p."""
    t = copy.deepcopy(spec)
    t["phases"] = {}
    cm = S.comp_map(spec)
    slept, dropped = set(), set()
    # elements asleep in p
    for c in spec["comps"]:
        b = M.behaviour(c, p)
        if c["kind"] in ("Converter", "LinReg", "PSwitch", "PMux") and not b["active"]:
            if c["kind"] == "PMux" and M.selected_input(c, rows) < 0:
                dropped.add(c["name"])  # asleep AND without a live input: simply dead
            else:
                slept.add(c["name"])
    # everything below a sleeping element is dropped from the twin
    changed = True
    while changed:
        changed = False
        for c in spec["comps"]:
            n = c["name"]
            if n in dropped or not c["parents"]:
                continue
            ps = c["parents"]
            if all((q in slept or q in dropped) for q in ps):
                dropped.add(n)
                changed = True
    out = []
    for c in t["comps"]:
        n = c["name"]
        if n in dropped:
            continue
        b = M.behaviour(cm[n], p)
        c["phase"] = None
        if n in slept:
            par = [q for q in c["parents"]]
            c["kind"] = "ILoad"
            c["args"] = {"ii": abs(cm[n]["args"].get("iis", 0.0))}
            if cm[n]["kind"] == "PMux":
                k = M.selected_input(cm[n], rows)  # a sleeping mux draws iis from its first live input
                par = [par[k if k >= 0 else 0]]
            c["parents"] = par[:1]
            c["via_rail"] = [False]
            c["rail"] = ""
        elif c["kind"] == "Source" and not b["active"]:
            c["args"]["vo"] = 0.0
        elif c["kind"] == "PLoad":
            c["args"]["pwr"] = b["value"]
        elif c["kind"] == "ILoad":
            c["args"]["ii"] = b["value"]
        elif c["kind"] == "RLoad":
            c["args"]["rs"] = b["value"]
        # parents that were dropped/slept (only possible for a mux with several inputs): remove them
        if c["kind"] == "PMux":
            keep = [(q, v) for q, v in zip(c["parents"], c.get("via_rail") or [False] * len(c["parents"]))
                    if q not in slept and q not in dropped]
            if len(keep) != len(c["parents"]):
                idx = [i for i, q in enumerate(c["parents"]) if q not in slept and q not in dropped]
                c["parents"] = [q for q, _ in keep]
                c["via_rail"] = [v for _, v in keep]
                if isinstance(c["args"].get("rs"), list):
                    c["args"]["rs"] = [c["args"]["rs"][i] for i in idx]
        out.append(c)
    t["comps"] = out
    return t, dropped, slept
