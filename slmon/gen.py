"""Seeded generators of SystemSpecs (DESIGN.md section 3)."""

import math

from .spec import LOADS

INTERNAL = ["RLoss", "VLoss", "Converter", "LinReg", "PSwitch", "Rectifier"]
PHASE_POOL = ["sleep", "idle", "tx", "rx", "move", "boot"]
# names that contain / prefix / differ only in case or blanks from one another: still distinct phases
PHASE_POOL_OVERLAP = ["sleep", "deep_sleep", "tx", "tx_retry", "p1", "p10", "a", "ab", "Idle", "idle", "idle 2", "1", "11"]
REALISTIC = [
    "Buck 1.8V", "-12V (x)/y#1", "3V3 LDO", "5V0_USB", "MCU core", "RF+PA", "Vbatt Li-Ion", "Sensor #2",
    "1.2 V rail", "LED (red)", "Fan/12V", "DDR_VTT", "Load switch A", "OR-ing mux", "Bridge rect.", "R_sense",
    "D1 Schottky", "48V-bus", "Aux supply_2", "Heater (PTC)", "0.9V core", "IO bank 3", "Motor drv", "Cam 2.8V",
    "FPGA aux", "PoE in", "Wall adapter", "Solar", "eFuse", "Ideal diode", "Charger out", "GPS LNA",
]


def sig(x, n=4):
    """Round to n significant digits (keeps specs readable and JSON-exact)."""
    if x == 0 or not math.isfinite(x):
        return x
    return float("%.*g" % (n, x))


def lu(rng, lo, hi):
    return sig(math.exp(rng.uniform(math.log(lo), math.log(hi))))


def well_conditioned(ios, vis, frac=2e-4):
    """C10's class of tables: axis steps not smaller than 1e-4 of the largest coordinate (2x margin)."""
    big = max([abs(x) for x in ios] + [abs(v) for v in vis])
    xs, ys = sorted(abs(x) for x in ios), sorted(abs(v) for v in vis)
    steps = [b - a for a, b in zip(xs, xs[1:])] + [b - a for a, b in zip(ys, ys[1:])]
    return all(st >= frac * big for st in steps)


DEFAULTS = dict(
    n_comp=(2, 12), n_src=(1, 1), mux=0.0, polarity="pos", regime="benign", tables=0.3, general2d=0.3,
    phases=0.0, rails=0.0, via_rail=0.5, groups=0.0, rt=0.4, dead=0.0, names="plain", loss_flag=0.3,
    neg_mag=0.0, ints=0.15, max_depth=6, phase_conf=0.5, sleep=0.5, mux_list_rs=0.5, iq=0.5,
    shape=None, neg_src_rs=0.0, mux_inputs=(1, 4), tiny=0.03, explicit_zeros=0.08,
)


def variantise_phases(spec, rng):
    """Rename one system phase into a case / blank VARIANT of another one ('tx' and 'TX', 'run' and 'run ') - two
    distinct phases - consistently in the system phases and in every component's phase configuration."""
    names = list((spec.get("phases") or {}).keys())
    if len(names) < 2:
        return spec
    p_, q_ = rng.sample(names, 2)
    new = rng.choice([p_.swapcase(), p_ + " ", " " + p_, p_.capitalize()])
    if new in names or new == p_:
        new = p_ + " "
        if new in names:
            return spec
    ren = lambda x: new if x == q_ else x  # noqa: E731
    spec["phases"] = {ren(k): v for k, v in spec["phases"].items()}
    for c in spec["comps"]:
        ph = c.get("phase")
        if isinstance(ph, list):
            c["phase"] = [ren(x) for x in ph]
        elif isinstance(ph, dict):
            c["phase"] = {ren(k): v for k, v in ph.items()}
    return spec


def gen_system(rng, **opts):
    o = dict(DEFAULTS)
    o.update(opts)
    g = _Gen(rng, o)
    return g.make()


class _Gen:
    def __init__(self, rng, o):
        self.r = rng
        self.o = o
        self.nodes = []  # dicts: name kind parents depth
        self.by = {}

    # ---------------------------------------------------------------- names
    def _names(self, n_src, n_comp):
        style = self.o["names"]
        if style == "plain":
            return ["S%d" % (i + 1) for i in range(n_src)], ["N%d" % (i + 1) for i in range(n_comp + 1)]
        pool = list(REALISTIC)
        self.r.shuffle(pool)
        need = n_src + n_comp + 1
        while len(pool) < need:
            pool.append("X%d" % len(pool))
        return pool[:n_src], pool[n_src:need]

    # ---------------------------------------------------------------- structure
    def make(self):
        r, o = self.r, self.o
        n_src = r.randint(*o["n_src"])
        n_comp = r.randint(*o["n_comp"])
        tiny = r.random() < o["tiny"]
        if tiny:
            # degenerate but legitimate: a system that is just its source(s), or a source with a single component
            n_comp = r.choice([0, 1, 1])
        snames, cnames = self._names(n_src, n_comp)
        shape = o["shape"] or r.choice(["chain", "star", "bushy", "random", "random"])
        for s in snames:
            self._add(s, "Source", [], 0)
        want_mux = r.random() < o["mux"]
        mux_at = r.randint(0, max(0, n_comp - 1)) if want_mux else -1
        last_internal = None
        ci = 0
        for i in range(n_comp):
            name = cnames[ci]
            ci += 1
            nonload = [n for n in self.nodes if n["kind"] not in LOADS and n["depth"] < o["max_depth"]]
            if i == mux_at:
                lo, hi = o["mux_inputs"]
                k = min(r.randint(lo, hi), len(nonload))
                srcs = [n for n in nonload if n["kind"] == "Source"]
                if len(srcs) >= k and r.random() < 0.5:
                    inputs = r.sample(srcs, k)
                else:
                    inputs = r.sample(nonload, k)
                self._add(name, "PMux", [n["name"] for n in inputs], 1 + max(n["depth"] for n in inputs))
                last_internal = self.nodes[-1]
                continue
            # parent choice
            if shape == "chain" and last_internal is not None and last_internal["depth"] < o["max_depth"]:
                par = last_internal if r.random() < 0.8 else r.choice(nonload)
            elif shape == "star":
                par = r.choice([n for n in nonload if n["depth"] <= 1])
            elif shape == "bushy":
                w = [1.0 / (1 + n["depth"]) for n in nonload]
                par = r.choices(nonload, weights=w)[0]
            else:
                par = r.choice(nonload)
            remaining = n_comp - i
            p_load = 0.45 if remaining > 2 else 0.8
            if shape == "chain":
                p_load = 0.25 if remaining > 1 else 1.0
            if par["depth"] + 1 >= o["max_depth"]:
                p_load = 1.0
            if r.random() < p_load:
                kind = r.choice(["PLoad", "ILoad", "RLoad"])
            else:
                kind = r.choice(INTERNAL)
            self._add(name, kind, [par["name"]], par["depth"] + 1)
            if kind not in LOADS:
                last_internal = self.nodes[-1]
        self._electrical()
        self._phases()
        self._labels()
        if r.random() < o["explicit_zeros"]:
            # optional magnitudes spelled out as exactly 0 / 0.0 (the neutral value given explicitly, also as an int)
            ZERO_OK = {"Converter": ["iq", "iis", "rt"], "LinReg": ["vdrop", "ig", "iis", "rt"], "PSwitch": ["rs", "ig", "iis", "rt"],
                       "PMux": ["rs", "ig", "iis", "rt"], "RLoss": ["rt"], "VLoss": ["rt"], "PLoad": ["pwrs", "rt"], "ILoad": ["iis", "rt"],
                       "RLoad": ["rt"], "Source": ["rs"]}
            for n in self.nodes:
                for k_ in ZERO_OK.get(n["kind"], []):
                    if k_ not in n["args"] and r.random() < 0.6:
                        n["args"][k_] = r.choice([0.0, 0.0, 0])
        comps = []
        for n in self.nodes:
            comps.append({
                "name": n["name"], "kind": n["kind"], "args": n["args"], "parents": n["parents"],
                "via_rail": n.get("via_rail", [False] * len(n["parents"])), "group": n.get("group", ""),
                "rail": n.get("rail", ""), "limits": None, "phase": n.get("phase"),
            })
        return {"name": "sys", "comps": comps, "phases": self.sys_phases, "phases_first": r.random() < 0.7,
                "_meta": {"regime": o["regime"], "shape": shape, "polarity": o["polarity"]}}

    def _add(self, name, kind, parents, depth):
        n = {"name": name, "kind": kind, "parents": parents, "depth": depth, "args": {}}
        self.nodes.append(n)
        self.by[name] = n
        return n

    # ---------------------------------------------------------------- numbers
    def _num(self, x):
        """Occasionally hand the constructor an int-valued number as an int."""
        if self.r.random() < self.o["ints"] and abs(x) >= 1:
            return int(round(x))
        return sig(x)

    def _mag(self, x):
        """Magnitude parameter, sometimes given with a negative sign (must be normalised by the ctor)."""
        if self.r.random() < self.o["neg_mag"]:
            return -x
        return x

    # ---------------------------------------------------------------- electrical parameters
    def _electrical(self):
        r, o = self.r, self.o
        pol = o["polarity"]
        kids = {n["name"]: [] for n in self.nodes}
        for n in self.nodes:
            if n["kind"] == "PMux":
                kids[n["parents"][0]].append(n["name"])  # estimate: first input carries the mux
            elif n["parents"]:
                kids[n["parents"][0]].append(n["name"])
        vnom = {}
        self.vnom = vnom
        # top-down nominal voltages and regulated outputs, efficiencies, ground currents
        for n in self.nodes:
            k, a = n["kind"], n["args"]
            if k == "Source":
                mag = lu(r, 1.0, 60.0) if r.random() < 0.85 else lu(r, 0.5, 400.0)
                s = {"pos": 1, "neg": -1}.get(pol) or r.choice([1, -1])
                if pol == "any":
                    s = r.choice([1, -1])
                a["vo"] = self._num(s * mag)
                vnom[n["name"]] = float(a["vo"])
                continue
            vin = vnom[n["parents"][0]]
            m = abs(vin)
            s = 1 if vin >= 0 else -1
            if k == "Converter":
                vo = m * math.exp(r.uniform(math.log(0.15), math.log(2.5)))
                vo = min(max(vo, 0.4), 500.0)
                so = s
                if pol in ("mixed", "any") and r.random() < 0.3:
                    so = -s
                a["vo"] = self._num(so * vo)
                a["eff"] = self._eff_param(n)
                if r.random() < o["iq"]:
                    a["iq"] = self._mag(lu(r, 1e-6, 5e-3))
                if r.random() < o["sleep"]:
                    a["iis"] = self._mag(lu(r, 1e-7, 1e-4))
                vnom[n["name"]] = float(a["vo"])
            elif k == "LinReg":
                if r.random() < 0.8:
                    vo = m * r.uniform(0.3, 0.9)
                else:
                    vo = m * r.uniform(0.97, 1.3)  # drop-out
                vo = max(vo, 0.2)
                so = s
                if pol in ("mixed", "any") and r.random() < 0.2:
                    so = -s
                a["vo"] = self._num(so * vo)
                if r.random() < 0.7:
                    a["vdrop"] = self._mag(sig(min(abs(a["vo"]) * r.uniform(0.01, 0.3), m * 0.2)))
                    if not (abs(a["vdrop"]) < abs(a["vo"])):
                        a["vdrop"] = sig(abs(a["vo"]) * 0.1)
                vd = abs(a.get("vdrop", 0.0))
                out = min(abs(a["vo"]), max(m - vd, 0.0))
                vnom[n["name"]] = so * out if out > 0 else so * 1e-3
            elif k == "Rectifier":
                vnom[n["name"]] = m
            else:
                vnom[n["name"]] = vin
            if k in LOADS:
                if r.random() < o["loss_flag"]:
                    a["loss"] = True
            if k != "Source" and r.random() < o["rt"]:
                a["rt"] = self._mag(lu(r, 0.5, 150.0))
        # loads
        for n in self.nodes:
            k, a = n["kind"], n["args"]
            if k not in LOADS:
                continue
            m = abs(vnom[n["name"]]) or 1.0
            cur = lu(r, 1e-4, 2.0) if r.random() < 0.9 else lu(r, 1e-6, 20.0)
            n["_inom"] = cur
            if r.random() < 0.04 and k != "RLoad":
                cur = 0.0  # a load that draws nothing (pwr=0 / ii=0) is legal
            if k == "PLoad":
                a["pwr"] = self._mag(sig(cur * m))
                if r.random() < o["sleep"]:
                    a["pwrs"] = self._mag(sig((abs(a["pwr"]) or 1e-3) * lu(r, 1e-4, 0.1)))
            elif k == "ILoad":
                a["ii"] = self._mag(cur)
                if r.random() < o["sleep"]:
                    a["iis"] = self._mag(sig((cur or 1e-3) * lu(r, 1e-4, 0.1)))
            else:
                a["rs"] = self._mag(sig(m / cur))
        # bottom-up current estimate
        iest = {}
        for n in reversed(self.nodes):
            k, a = n["kind"], n["args"]
            if k in LOADS:
                iest[n["name"]] = n["_inom"]
                continue
            io = sum(iest[c] for c in kids[n["name"]])
            n["_io"] = io
            if k == "Converter":
                vin = abs(vnom[n["parents"][0]]) or 1.0
                iest[n["name"]] = abs(a["vo"]) * io / (vin * 0.8) + 1e-4
            else:
                iest[n["name"]] = io
        self.iest = iest
        # ground currents (need io estimate for table axes)
        for n in self.nodes:
            k, a = n["kind"], n["args"]
            if k in ("LinReg", "PSwitch", "PMux") or (k == "Rectifier" and n.get("_mode") is None):
                pass
        # series elements
        regime = o["regime"]
        series = [n for n in self.nodes if n["kind"] in ("Source", "RLoss", "VLoss", "PSwitch", "PMux", "Rectifier")]
        over = set()
        if regime == "overload" and series:
            for n in r.sample(series, min(len(series), r.randint(1, 2))):
                over.add(n["name"])
        for n in self.nodes:
            k, a = n["kind"], n["args"]
            name = n["name"]
            if k in LOADS or k in ("Converter",):
                continue
            io = n.get("_io", 0.0)
            m = abs(vnom[n["parents"][0]]) if n["parents"] else abs(vnom[name])
            m = m or 1.0
            depth_budget = 0.15 / max(1, o["max_depth"] / 2.0)
            if regime == "benign":
                f = r.uniform(0.0, depth_budget) if r.random() < 0.85 else 0.0
            elif regime == "heavy":
                f = r.uniform(0.02, 0.35)
            else:
                f = r.uniform(0.6, 6.0) if name in over else r.uniform(0.0, 0.1)
            icur = io if io > 0 else lu(r, 1e-3, 1.0)
            if k == "Source":
                if r.random() < 0.7:
                    rs = sig(f * m / icur)
                    if a["vo"] < 0 and r.random() >= o["neg_src_rs"]:
                        rs = 0.0  # negative source with series resistance is finding F1; dosed by neg_src_rs
                    if rs:
                        a["rs"] = self._mag(rs)
            elif k == "RLoss":
                a["rs"] = self._mag(sig(f * m / icur)) if r.random() < 0.9 else 0.0
            elif k == "VLoss":
                a["vdrop"] = self._tab_or_const(n, "vdrop", max(f * m, 1e-4), m)
            elif k == "LinReg":
                self._ig(n, m)
            elif k == "PSwitch":
                if r.random() < 0.85:
                    a["rs"] = self._mag(sig(f * m / icur))
                self._ig(n, m)
                if r.random() < o["sleep"]:
                    a["iis"] = self._mag(lu(r, 1e-7, 1e-4))
            elif k == "PMux":
                nin = len(n["parents"])
                if r.random() < o["mux_list_rs"]:
                    a["rs"] = [sig(f * m / icur * r.uniform(0.3, 1.5)) for _ in range(nin)]
                elif r.random() < 0.85:
                    a["rs"] = self._mag(sig(f * m / icur))
                self._ig(n, m)
                if r.random() < o["sleep"]:
                    a["iis"] = self._mag(lu(r, 1e-7, 1e-4))
            elif k == "Rectifier":
                if r.random() < 0.5:
                    a["vdrop"] = self._tab_or_const(n, "vdrop", max(f * m / 2.0, 1e-4), m)
                else:
                    if r.random() < 0.85:
                        a["rs"] = self._mag(sig(f * m / (2.0 * icur)))
                    self._ig(n, m)
                    if r.random() < o["iq"]:
                        a["iq"] = self._mag(lu(r, 1e-6, 1e-3))
        # planted dead elements
        if o["dead"] > 0:
            for n in self.nodes:
                if n["kind"] == "Source" and r.random() < o["dead"] * 0.5:
                    n["args"]["vo"] = r.choice([0.0, 0, -0.0])

    def _ig(self, n, m):
        r = self.r
        if r.random() < 0.6:
            base = lu(r, 1e-6, 5e-3)
            n["args"]["ig"] = self._tab_or_const(n, "ig", base, m)
            if n["kind"] == "LinReg" and r.random() < self.o.get("linreg_iq", 0.15):
                ig = n["args"].pop("ig")  # the deprecated keyword iq is still documented
                if isinstance(ig, dict):
                    ig = dict(ig)
                    ig["iq"] = ig.pop("ig")
                n["args"]["iq"] = ig

    def _eff_param(self, n):
        r, o = self.r, self.o
        if r.random() >= o["tables"]:
            return sig(r.uniform(0.55, 0.99), 3) if r.random() < 0.95 else 1.0
        return self._table(n, "eff", None, abs(self.vnom_parent(n)))

    def vnom_parent(self, n):
        return getattr(self, "vnom", {}).get(n["parents"][0], 5.0) if n["parents"] else 5.0

    def _tab_or_const(self, n, z, base, m):
        if self.r.random() >= self.o["tables"]:
            return self._mag(sig(base))
        return self._table(n, z, base, m)

    def _table(self, n, z, base, m):
        """1-D or 2-D table around the expected operating point (io axis may or may not cover it)."""
        r, o = self.r, self.o
        icen = lu(r, 1e-3, 1.0)
        nio = r.randint(2, 6)
        single = r.random() < 0.08  # a 1-D table with a single point is legal (constant)
        lo = icen * r.uniform(0.02, 0.5)
        hi = icen * r.uniform(1.5, 8.0)
        ios = sorted(set(sig(lo * (hi / lo) ** (i / (nio - 1.0))) for i in range(nio)))
        if r.random() < 0.3:
            ios[0] = 0.0
        if len(ios) < 2:
            ios = [sig(lo), sig(hi * 2)]
        two_d = r.random() < 0.5 and not single
        if single:
            ios = ios[:1]
        m = m or 1.0
        if two_d:
            nvi = r.randint(2, 4)
            vis = sorted(set(sig(m * r.uniform(0.4, 0.9) * (2.2 ** j)) for j in range(nvi)))
            if len(vis) < 2:
                vis = [sig(m * 0.5), sig(m * 1.5)]
        else:
            vis = [sig(m)]
        if two_d and r.random() < 0.12:
            # whole-number axes typed as Python ints (as a TOML / JSON file delivers them); queries fall between them
            ivis = sorted(set(max(1, int(round(m * f))) for f in (0.5, 1.0, 2.0, 3.0)[: len(vis)]))
            if len(ivis) >= 2:
                vis = ivis
                ios = [0, 1, 2, 5][: max(2, len(ios) - 1)] if r.random() < 0.5 else [1, 2, 3, 4, 6][: max(2, len(ios))]
        if two_d and not well_conditioned(ios, vis):
            two_d, vis = False, [sig(m)]  # 2-D tables are only generated inside C10's well-conditioned class
        general = two_d and r.random() < o["general2d"]

        def val(i, j):
            x = i / max(1, len(ios) - 1.0)
            y = j / max(1, len(vis) - 1.0)
            if z == "eff":
                if general:
                    return sig(r.uniform(0.5, 0.98), 4)
                return 0.6 + 0.25 * x + 0.1 * y
            if general:
                return sig(base * r.uniform(0.5, 1.5), 4)
            return base * (0.6 + 0.5 * x + 0.3 * y)

        if two_d and not general:
            # affine in the coordinates themselves (not in the index) so every triangulation agrees
            i0, i1, v0, v1 = ios[0], ios[-1], vis[0], vis[-1]
            if z == "eff":
                a0, bx, cy = 0.6, 0.25 / (i1 - i0), 0.1 / (v1 - v0)
            else:
                a0, bx, cy = base * 0.6, base * 0.5 / (i1 - i0), base * 0.3 / (v1 - v0)
            rows = [[a0 + bx * (x - i0) + cy * (v - v0) for x in ios] for v in vis]
        else:
            rows = [[val(i, j) for i in range(len(ios))] for j in range(len(vis))]
            rows = [[sig(v, 6) for v in row] for row in rows]
        if two_d and r.random() < 0.25:
            # presentation variants of the same table: rows in descending / arbitrary order, vi written negative
            perm = list(range(len(vis)))
            if r.random() < 0.5:
                perm.reverse()
            else:
                r.shuffle(perm)
            vis = [vis[k] for k in perm]
            rows = [rows[k] for k in perm]
            if r.random() < 0.4:
                vis = [-v for v in vis]
        return {"vi": vis, "io": ios, z: rows}

    # ---------------------------------------------------------------- phases
    def _phases(self):
        r, o = self.r, self.o
        self.sys_phases = {}
        if r.random() >= o["phases"]:
            return
        names = r.sample(PHASE_POOL_OVERLAP if r.random() < 0.25 else PHASE_POOL, r.randint(2, 5))
        for p in names:
            d = lu(r, 1e-3, 1e5)
            self.sys_phases[p] = int(d) + 1 if r.random() < 0.3 else d
        if len(names) >= 2 and r.random() < 0.12:
            # a phase of duration exactly 0 (an instantaneous event): still a phase with its own steady state
            self.sys_phases[r.choice(names)] = r.choice([0, 0.0])
        for n in self.nodes:
            k, a = n["kind"], n["args"]
            if r.random() >= o["phase_conf"]:
                continue
            sub = [p for p in names if r.random() < 0.6]
            if r.random() < 0.15:
                # a phase the system does not have (possibly a fragment / extension of one it has)
                sub.append(r.choice(["ghost", names[0][:-1] or "g", names[-1] + "2"]))
            if k in LOADS:
                conf = {}
                for p in sub:
                    if k == "PLoad":
                        conf[p] = sig(abs(a["pwr"]) * r.uniform(0.05, 1.3))
                    elif k == "ILoad":
                        conf[p] = sig(abs(a["ii"]) * r.uniform(0.05, 1.3))
                    else:
                        conf[p] = sig(abs(a["rs"]) * r.uniform(0.8, 10.0))
                # a phase explicitly configured to 0 (load off in that phase) is NOT the same as an absent phase
                if k in ("PLoad", "ILoad") and conf and r.random() < 0.3:
                    conf[r.choice(sorted(conf))] = r.choice([0.0, 0])
                n["phase"] = conf
            elif k in ("Source", "Converter", "LinReg", "PSwitch", "PMux"):
                if k == "Source" and r.random() < 0.5:
                    continue
                n["phase"] = sub

    # ---------------------------------------------------------------- rails / groups
    def _labels(self):
        r, o = self.r, self.o
        ri = 0
        # group names are labels, not identifiers to be normalised: blank-only, padded and case variants are distinct
        self.group_pool = ["G1", "G2", "Analog", "Digital"]
        if o["groups"] > 0 and r.random() < 0.2:
            self.group_pool = [" ", "A", "A ", " A", "a", "Analog", "analog"]
        for n in self.nodes:
            if n["kind"] not in LOADS and r.random() < o["rails"]:
                ri += 1
                n["rail"] = "RAIL_%d" % ri
            if r.random() < o["groups"]:
                n["group"] = r.choice(self.group_pool)
        for n in self.nodes:
            n["via_rail"] = [bool(self.by[p].get("rail")) and r.random() < o["via_rail"] for p in n["parents"]]


def scale_currents(spec, f):
    """Electrically similar system with every current multiplied by f (voltages unchanged): loads, quiescent /
    ground / sleep currents x f, resistances / f, io axes of tables x f, tabulated ground currents x f."""
    import copy

    out = copy.deepcopy(spec)

    def tab(t, z, scale_values):
        t = dict(t)
        t["io"] = [sig(x * f, 6) for x in t["io"]]
        if scale_values:
            t[z] = [[sig(v * f, 6) for v in row] for row in t[z]]
        if len(t["vi"]) > 1 and not well_conditioned(t["io"], t["vi"]):
            k_ = len(t["vi"]) // 2  # scaled out of the well-conditioned class: keep one row (1-D table)
            t["vi"], t[z] = [t["vi"][k_]], [t[z][k_]]
        return t

    for c in out["comps"]:
        a, k = c["args"], c["kind"]
        for key in ("pwr", "pwrs", "ii", "iis", "iq"):
            if key in a and not isinstance(a[key], dict):
                a[key] = sig(a[key] * f, 6)
            elif key in a:
                a[key] = tab(a[key], key if key in a[key] else "ig", True)
        if "ig" in a:
            a["ig"] = tab(a["ig"], "ig", True) if isinstance(a["ig"], dict) else sig(a["ig"] * f, 6)
        if "rs" in a:
            a["rs"] = [sig(x / f, 6) for x in a["rs"]] if isinstance(a["rs"], list) else sig(a["rs"] / f, 6)
        for key in ("eff", "vdrop"):
            if isinstance(a.get(key), dict):
                a[key] = tab(a[key], key, False)
        ph = c.get("phase")
        if isinstance(ph, dict):
            c["phase"] = {p: (sig(v / f, 6) if k == "RLoad" else sig(v * f, 6)) for p, v in ph.items()}
    out.setdefault("_meta", {})["current_scale"] = f
    return out
