"""Import the sysloss package from the repository working tree.

The package is pure Python, so "rebuilding from /repo's working tree" is importing
``$VERIF_REPO/src`` (default /repo/src) on every run.  The loader refuses to go on
if ``sysloss`` resolves anywhere else (e.g. a stale site-packages copy).
"""

import os
import sys
import warnings

os.environ.setdefault("MPLBACKEND", "Agg")
os.environ.setdefault("TQDM_DISABLE", "1")

REPO = os.environ.get("VERIF_REPO", "/repo")
SRC = os.path.join(REPO, "src")

_loaded = None


class FPLog:
    """numpy floating point event recorder (np.seterr(all='call'))."""

    def __init__(self):
        self.events = {}

    def __call__(self, kind, flag):
        self.events[kind] = self.events.get(kind, 0) + 1


FP = FPLog()


def load():
    """Return the namespace (module objects) of the code under test."""
    global _loaded
    if _loaded is not None:
        return _loaded
    if SRC in sys.path:
        sys.path.remove(SRC)
    sys.path.insert(0, SRC)
    for m in [m for m in sys.modules if m == "sysloss" or m.startswith("sysloss.")]:
        del sys.modules[m]
    warnings.filterwarnings("ignore", category=DeprecationWarning)
    warnings.filterwarnings("ignore", message="rail parameter ignored")
    warnings.filterwarnings("ignore", category=FutureWarning)
    import numpy as np
    import sysloss
    import sysloss.components as comps
    import sysloss.system as system
    import sysloss.diagram as diagram
    import sysloss.utils as utils

    here = os.path.realpath(os.path.dirname(sysloss.__file__))
    want = os.path.realpath(os.path.join(SRC, "sysloss"))
    if here != want:
        raise RuntimeError("sysloss imported from %s, expected %s" % (here, want))
    np.seterrcall(FP)
    np.seterr(all="call")
    if os.environ.get("VERIF_REACH", "1") == "1":
        from . import reach

        reach.start(os.path.join(SRC, "sysloss"))

    class NS:
        pass

    ns = NS()
    ns.sysloss = sysloss
    ns.comps = comps
    ns.system = system
    ns.diagram = diagram
    ns.utils = utils
    ns.System = system.System
    ns.np = np
    ns.KINDS = {
        k: getattr(comps, k)
        for k in [
            "Source",
            "PLoad",
            "ILoad",
            "RLoad",
            "RLoss",
            "VLoss",
            "Converter",
            "LinReg",
            "PSwitch",
            "PMux",
            "Rectifier",
        ]
    }
    _loaded = ns
    return ns
