"""Reached-line probe: sys.monitoring LINE events on the sysloss sources, each location disabling itself
after its first hit (cost: one callback per distinct line).  Reported per function in the evidence so that a
workload that never entered, say, the MOSFET-rectifier no-load branch is visible."""

import os
import sys

TOOL = 3  # sys.monitoring tool id (debugger=0, coverage=1, profiler=2, optimizer=5)
_hits = {}
_on = False


def start(src_dir):
    global _on
    if _on or not hasattr(sys, "monitoring"):
        return False
    mon = sys.monitoring
    try:
        mon.use_tool_id(TOOL, "slmon-reach")
    except ValueError:
        return False
    src_dir = os.path.realpath(src_dir)

    def line(code, lineno):
        fn = code.co_filename
        if fn.startswith(src_dir):
            _hits.setdefault(fn, set()).add(lineno)
        return mon.DISABLE

    mon.register_callback(TOOL, mon.events.LINE, line)
    mon.set_events(TOOL, mon.events.LINE)
    _on = True
    return True


def dump():
    return {os.path.basename(k): sorted(v) for k, v in _hits.items()}


def merge(a, b):
    for k, v in b.items():
        a.setdefault(k, set()).update(v)
    return a


def _code_tree(code, prefix, out):
    for c in code.co_consts:
        if hasattr(c, "co_lines"):
            qn = getattr(c, "co_qualname", c.co_name)
            if "<" in c.co_name:  # comprehensions / lambdas belong to the enclosing function
                _code_tree(c, prefix, out)
                out.setdefault(prefix, set()).update(l for _, _, l in c.co_lines() if l)
                continue
            lines = set(l for _, _, l in c.co_lines() if l and l != c.co_firstlineno)
            out.setdefault(qn, set()).update(lines)
            _code_tree(c, qn, out)


def summarise(hits, ns, anchors=None):
    """Per-function reached/total executable lines, from the code objects of the SOURCE files (so that
    attributes monkey-patched by the monitors do not hide the real functions). hits: {basename: lines}."""
    out = {}
    for mod in (ns.comps, ns.system, ns.diagram, ns.utils):
        fn = mod.__file__
        base = os.path.basename(fn)
        got = set(hits.get(base, ()))
        tree = {}
        with open(fn, "rb") as f:
            _code_tree(compile(f.read(), fn, "exec"), "<module>", tree)
        tot_all = hit_all = 0
        per = {}
        for qn, lines in sorted(tree.items()):
            # class bodies are executed at import (before the probe starts): only functions count
            if not lines or qn == "<module>" or "." not in qn and qn[:1].isupper() or qn[:1] == "_" and qn[1:2].isupper() and "." not in qn:
                continue
            h = len(lines & got)
            tot_all += len(lines)
            hit_all += h
            if anchors is None or any(a in qn for a in anchors):
                per[qn] = "%d/%d" % (h, len(lines))
        out[base] = {"lines_reached": hit_all, "lines_total": tot_all, "functions": per}
    return out
