"""Independent reference model: documented component laws, table interpolation, phase behaviour,
and the row checker that judges a solve() table against them.

Written from the class docstrings and the property statements, not from the _solv_* methods.
All structure (who feeds whom) comes from the spec, never from the table's Parent column.
"""

import math

from .spec import LOADS, ACTIVE_LIST_KINDS, TYPE_OF, comp_map, children_map

ATOL = 1e-8  # numpy.allclose default atol used by the solver's convergence test (not user-settable)
SLACK = 1e-12  # relative slack for re-association / different operation order in the oracle


# ---------------------------------------------------------------------------------------------
# tolerance algebra (DESIGN.md section 2)
# ---------------------------------------------------------------------------------------------
class Tol:
    def __init__(self, vtol=1e-6, itol=1e-6):
        self.vtol = vtol
        self.itol = itol

    def dV(self, x):
        return ATOL + self.vtol * abs(x)

    def dI(self, x):
        return ATOL + self.itol * abs(x)


def sgn(x):
    return (x > 0) - (x < 0)


# ---------------------------------------------------------------------------------------------
# tabulated parameters
# ---------------------------------------------------------------------------------------------
def is_table(p):
    return isinstance(p, dict)


def interp1(x, xs, fs):
    """Exact piecewise-linear interpolation with end clamping (own code, no numpy)."""
    x = abs(x)
    xs = [abs(v) for v in xs]
    fs = [abs(v) for v in fs]
    if x <= xs[0]:
        return fs[0]
    if x >= xs[-1]:
        return fs[-1]
    lo, hi = 0, len(xs) - 1
    while hi - lo > 1:
        mid = (lo + hi) // 2
        if xs[mid] <= x:
            lo = mid
        else:
            hi = mid
    t = (x - xs[lo]) / (xs[lo + 1] - xs[lo])
    return fs[lo] + t * (fs[lo + 1] - fs[lo])


def table_affine(tab, z):
    """If the 2-D table is affine z = a + b*io + c*vi (then every triangulation agrees), return (a,b,c)."""
    vis = [abs(v) for v in tab["vi"]]
    ios = [abs(v) for v in tab["io"]]
    zz = [[abs(v) for v in row] for row in tab[z]]
    if len(vis) < 2 or len(ios) < 2:
        return None
    b = (zz[0][-1] - zz[0][0]) / (ios[-1] - ios[0])
    c = (zz[-1][0] - zz[0][0]) / (vis[-1] - vis[0])
    a = zz[0][0] - b * ios[0] - c * vis[0]
    scale = max(max(r) for r in zz) or 1.0
    for j, v in enumerate(vis):
        for i, x in enumerate(ios):
            if abs(a + b * x + c * v - zz[j][i]) > 1e-13 * scale:
                return None
    return a, b, c


def _bracket(xs, x):
    """Indices (lo, hi) of the grid interval(s) containing x (clamped); widened when x sits on a grid line."""
    n = len(xs)
    if n == 1:
        return 0, 0
    if x <= xs[0]:
        return 0, 0
    if x >= xs[-1]:
        return n - 1, n - 1
    lo = 0
    for k in range(n - 1):
        if xs[k] <= x <= xs[k + 1]:
            lo = k
            break
    hi = lo + 1
    eps = 1e-9 * max(abs(xs[-1]), abs(xs[0]))
    if abs(x - xs[lo]) <= eps and lo > 0:
        lo -= 1
    if abs(x - xs[hi]) <= eps and hi < n - 1:
        hi += 1
    return lo, hi


def prange(p, z, io, vi):
    """Value range (lo, hi) the tabulated/constant parameter may take at (|io|, |vi|).

    constants, 1-D tables and affine 2-D tables: lo == hi (exact);
    general 2-D tables: the corner range of the enclosing cell of the clamped point.
    """
    if not is_table(p):
        v = abs(p)
        return v, v
    io, vi = abs(io), abs(vi)
    if len(p["vi"]) == 1:
        v = interp1(io, p["io"], p[z][0])
        return v, v
    vis = [abs(v) for v in p["vi"]]
    ios = [abs(v) for v in p["io"]]
    order = sorted(range(len(vis)), key=lambda k: vis[k])
    vis_s = [vis[k] for k in order]
    zz = [[abs(v) for v in p[z][k]] for k in order]
    ioc = min(max(io, ios[0]), ios[-1])
    vic = min(max(vi, vis_s[0]), vis_s[-1])
    aff = table_affine({"vi": vis_s, "io": ios, z: zz}, z)
    if aff is not None:
        a, b, c = aff
        v = a + b * ioc + c * vic
        return v, v
    i0, i1 = _bracket(ios, ioc)
    j0, j1 = _bracket(vis_s, vic)
    vals = [zz[j][i] for j in range(j0, j1 + 1) for i in range(i0, i1 + 1)]
    return min(vals), max(vals)


def param_form(p, z=None):
    if not is_table(p):
        return "const"
    if len(p["vi"]) == 1:
        return "tab1d"
    zk = z or [k for k in p if k not in ("vi", "io")][0]
    return "tab2d_affine" if table_affine(p, zk) is not None else "tab2d"


# ---------------------------------------------------------------------------------------------
# per-phase behaviour
# ---------------------------------------------------------------------------------------------
def behaviour(c, phase):
    """How component c behaves in `phase` ('' = system without phases)."""
    pc = c.get("phase")
    kind = c["kind"]
    a = c["args"]
    if kind in LOADS:
        if kind == "PLoad":
            nom, slp = abs(a["pwr"]), abs(a.get("pwrs", 0.0))
        elif kind == "ILoad":
            nom, slp = abs(a["ii"]), abs(a.get("iis", 0.0))
        else:
            nom = slp = abs(a["rs"])
        if not pc:
            val = nom
        elif phase not in pc:
            val = slp
        else:
            val = pc[phase]
        return {"active": True, "value": val, "listed": (not pc) or (phase in pc)}
    if kind in ACTIVE_LIST_KINDS:
        act = (not pc) or (phase in pc)
        return {"active": act, "value": None, "listed": act}
    # RLoss / VLoss cannot be configured; Rectifier ignores a configuration
    return {"active": True, "value": None, "listed": (not pc) or (phase in pc)}


# ---------------------------------------------------------------------------------------------
# documented laws; voltages signed, currents magnitudes.  Return (lo, hi) intervals.
# ---------------------------------------------------------------------------------------------
class LostPolarity(Exception):
    pass


def _hull(*vals):
    return min(vals), max(vals)


def mux_rs(c, sel):
    rs = c["args"].get("rs", 0.0)
    if isinstance(rs, list):
        return abs(rs[sel])
    return abs(rs)


def rect_mode(c):
    vd = c["args"].get("vdrop", 0.0)
    return "diode" if (is_table(vd) or vd != 0.0) else "mosfet"


def law_vout(c, vin, io, sel=0):
    """Output voltage interval of an ACTIVE, LIVE component for supply `vin` and output current `io`.

    Raises LostPolarity when a passive series element could not keep its polarity.
    """
    k, a = c["kind"], c["args"]
    s = sgn(vin)
    m = abs(vin)
    if k == "Source":
        vo = a["vo"]
        v = abs(vo) - abs(a.get("rs", 0.0)) * io
        if v <= 0:
            raise LostPolarity()
        return sgn(vo) * v, sgn(vo) * v
    if k == "Converter":
        return a["vo"], a["vo"]
    if k == "LinReg":
        v = min(abs(a["vo"]), max(m - abs(a.get("vdrop", 0.0)), 0.0))
        return sgn(a["vo"]) * v, sgn(a["vo"]) * v
    if k == "PSwitch":
        v = m - abs(a.get("rs", 0.0)) * io
        if v <= 0:
            raise LostPolarity()
        return s * v, s * v
    if k == "PMux":
        v = m - mux_rs(c, sel) * io
        if v <= 0:
            raise LostPolarity()
        return s * v, s * v
    if k == "RLoss":
        v = m - abs(a["rs"]) * io
        if v <= 0:
            raise LostPolarity()
        return s * v, s * v
    if k == "VLoss":
        lo, hi = prange(a["vdrop"], "vdrop", io, m)
        if m - lo <= 0:
            raise LostPolarity()
        return _hull(s * (m - lo), s * (m - hi))
    if k == "Rectifier":
        if rect_mode(c) == "diode":
            lo, hi = prange(a["vdrop"], "vdrop", io, m)
            if m - 2 * lo <= 0:
                raise LostPolarity()
            return _hull(m - 2 * lo, m - 2 * hi)
        v = m - 2 * abs(a.get("rs", 0.0)) * io
        if v <= 0:
            raise LostPolarity()
        return v, v
    if k in LOADS:
        return 0.0, 0.0
    raise KeyError(k)


def law_iin(c, beh, vin, io):
    """Input current interval of an ACTIVE, LIVE component."""
    k, a = c["kind"], c["args"]
    m = abs(vin)
    if k == "Converter":
        if io == 0.0:
            v = abs(a.get("iq", 0.0))
            return v, v
        lo, hi = prange(a["eff"], "eff", io, m)
        return _hull(abs(a["vo"]) * io / (m * hi), abs(a["vo"]) * io / (m * lo))
    if k in ("LinReg", "PSwitch", "PMux"):
        p = a.get("ig", 0.0)
        if k == "LinReg" and a.get("iq", 0.0) != 0.0:
            p = a["iq"]
            if is_table(p):
                p = dict(p)
                if "iq" in p:
                    p["ig"] = p.pop("iq")
        lo, hi = prange(p, "ig", io, m)
        return io + lo, io + hi
    if k in ("RLoss", "VLoss"):
        return io, io
    if k == "Rectifier":
        if rect_mode(c) == "diode":
            return io, io
        if io == 0.0:
            v = abs(a.get("iq", 0.0))
            return v, v
        lo, hi = prange(a.get("ig", 0.0), "ig", io, m)
        return io + lo, io + hi
    if k == "PLoad":
        v = beh["value"] / m
        return v, v
    if k == "ILoad":
        v = abs(beh["value"])
        return v, v
    if k == "RLoad":
        v = m / beh["value"]
        return v, v
    raise KeyError(k)


def sleep_current(c):
    return abs(c["args"].get("iis", 0.0))


# ---------------------------------------------------------------------------------------------
# table access
# ---------------------------------------------------------------------------------------------
COLS = {
    "vin": "Vin (V)", "vout": "Vout (V)", "iin": "Iin (A)", "iout": "Iout (A)", "p": "Power (W)",
    "l": "Loss (W)", "eff": "Efficiency (%)", "tr": "Temp. rise (°C)", "tp": "Peak temp. (°C)",
    "en": "24h energy (Wh)", "warn": "Warnings",
}


def split_table(df):
    """-> (phase_list, {phase: {'rows': {name: row}, 'order': [names], 'subs': {src: row}, 'total': row}}, average_row)"""
    recs = df.to_dict("records")
    has_phase = "Phase" in df.columns
    out, order, avg = {}, [], None
    for r in recs:
        name = r["Component"]
        if name == "System average":
            avg = r
            continue
        ph = r["Phase"] if has_phase else ""
        if ph not in out:
            out[ph] = {"rows": {}, "order": [], "subs": {}, "total": None}
            order.append(ph)
        typ = r.get("Type", "")
        if typ == "" and name == "System total":
            out[ph]["total"] = r
        elif typ == "" and isinstance(name, str) and name.startswith("Subsystem "):
            out[ph]["subs"][name[len("Subsystem "):]] = r
        else:
            out[ph]["rows"][name] = r
            out[ph]["order"].append(name)
    return order, out, avg


def num(x):
    return isinstance(x, (int, float)) and not isinstance(x, bool)


def finite_row(r):
    for k in ("vin", "vout", "iin", "iout", "p", "l", "eff"):
        v = r.get(COLS[k])
        if not num(v) or not math.isfinite(v):
            return False
    return True


# ---------------------------------------------------------------------------------------------
# structure helpers on (spec, phase rows)
# ---------------------------------------------------------------------------------------------
def selected_input(c, rows):
    """Index of the first declared input whose reported output is live (non-zero), else -1."""
    for k, p in enumerate(c["parents"]):
        if rows[p][COLS["vout"]] != 0.0:
            return k
    return -1


def suppliers(spec, rows):
    """name -> supplying parent name (None for sources and for a mux without live input)."""
    sup = {}
    sel = {}
    for c in spec["comps"]:
        if not c["parents"]:
            sup[c["name"]] = None
        elif c["kind"] == "PMux":
            k = selected_input(c, rows)
            sel[c["name"]] = k
            sup[c["name"]] = c["parents"][k] if k >= 0 else None
        else:
            sup[c["name"]] = c["parents"][0]
    return sup, sel


def true_domain(spec, sup):
    """name -> name of the source that actually powers it (mux: via the selected input)."""
    dom = {}
    cm = comp_map(spec)

    def d(n, guard=0):
        if n in dom:
            return dom[n]
        c = cm[n]
        if not c["parents"]:
            dom[n] = n
        elif sup[n] is None:
            dom[n] = None  # mux without live input
        else:
            dom[n] = d(sup[n], guard + 1)
        return dom[n]

    for c in spec["comps"]:
        d(c["name"])
    return dom


def feeds(spec, sup):
    """name -> list of components that draw their input current from it."""
    f = {c["name"]: [] for c in spec["comps"]}
    for c in spec["comps"]:
        n = c["name"]
        if c["kind"] == "PMux":
            if sup[n] is not None:
                f[sup[n]].append(n)
            elif len(c["parents"]) == 1:
                f[c["parents"][0]].append(n)
        elif c["parents"]:
            f[c["parents"][0]].append(n)
    return f


# ---------------------------------------------------------------------------------------------
# the row checker
# ---------------------------------------------------------------------------------------------
def check_phase(emit, spec, rows, phase, tol, ta):
    """Judge all component rows of one phase. emit(clause, ok, detail_fn)."""
    cm = comp_map(spec)
    missing = [c["name"] for c in spec["comps"] if c["name"] not in rows]
    extra = [n for n in rows if n not in cm]
    emit("rows.exact_set", not missing and not extra, lambda: {"missing": missing, "extra": extra, "phase": phase})
    if missing or extra:
        return {"polarity_lost": False, "skipped": True}
    for c in spec["comps"]:  # spec order = topological: the first non-finite row is the origin
        n, r = c["name"], rows[c["name"]]
        if not finite_row(r):
            emit("finite", False, lambda n=n, r=r, c=c: {"row": n, "phase": phase, "values": _rowvals(r),
                                                          "kind": c["kind"], "args": c["args"], "origin": True})
            return {"polarity_lost": False, "skipped": True}
    emit("finite", True, None)
    sup, sel = suppliers(spec, rows)
    fd = feeds(spec, sup)
    label_col = "Rail in" if any("Rail in" in r for r in rows.values()) else "Parent"
    polarity_lost = False
    sysP = sysLoad = sysLoss = 0.0
    sys_tol = 0.0
    any_tr_col = any(num(r.get(COLS["tr"])) for r in rows.values())

    for c in spec["comps"]:
        n, k = c["name"], c["kind"]
        r = rows[n]
        beh = behaviour(c, phase)
        vin, vout, iin, iout = r[COLS["vin"]], r[COLS["vout"]], r[COLS["iin"]], r[COLS["iout"]]
        P, L, E = r[COLS["p"]], r[COLS["l"]], r[COLS["eff"]]
        base = {"row": n, "kind": k, "phase": phase}

        def det(**kw):
            d = dict(base)
            d.update(values=_rowvals(r), args=c["args"], **kw)
            return d

        # ---- type column ----
        emit("label.type", r.get("Type") == TYPE_OF[k], lambda: det(expected=TYPE_OF[k]))
        # ---- links ----
        csum = math.fsum(rows[x][COLS["iin"]] for x in fd[n])
        if k == "Source":
            emit("link.iout_source", abs(iout - csum) <= 2 * tol.dI(csum) and iout == iin,
                 lambda: det(children_iin_sum=csum))
        else:
            s_ = sup[n]
            exp_vin = rows[s_][COLS["vout"]] if s_ is not None else 0.0
            emit("link.vin", vin == exp_vin, lambda: det(expected_vin=exp_vin, supplier=s_))
            emit("link.iout", abs(iout - csum) <= SLACK * max(abs(csum), abs(iout)) + 1e-300,
                 lambda: det(children_iin_sum=csum, children=fd[n]))
            # parent / rail-in label
            if s_ is not None:
                want = cm[s_].get("rail", "") if label_col == "Rail in" else s_
                emit("label.parent_mux" if k == "PMux" else "label.parent", r.get(label_col) == want,
                     lambda: det(column=label_col, expected=want, got=r.get(label_col), supplier=s_,
                                 n_inputs=len(c["parents"])))
        # ---- liveness ----
        if k == "Source":
            live_supply = True
            dead = (c["args"]["vo"] == 0.0) or not beh["active"]
        else:
            live_supply = vin != 0.0
            dead = not live_supply
        if dead:
            z = (vout == 0.0 and iin == 0.0 and iout == 0.0 and P == 0.0 and L == 0.0)
            if k == "Source":
                z = z and vin == 0.0
            emit("dead.zero", z, lambda: det(why="source 0V/inactive" if k == "Source" else "supply at 0 V"))
            _temps(emit, det, c, r, 0.0, ta, any_tr_col, dead=True)
            continue
        if not beh["active"]:  # sleeping converter / regulator / switch / mux on a live supply
            iis = sleep_current(c)
            pw = abs(iis * vin)
            ok = (vout == 0.0 and iin == iis and iout == 0.0 and _rel(P, pw) and _rel(L, pw))
            emit("dead.sleep", ok, lambda: det(expected_iin=iis, expected_power_and_loss=pw))
            sysLoss += L
            _temps(emit, det, c, r, L, ta, any_tr_col)
            continue
        # ---- transfer laws ----
        try:
            if k == "Source":
                lo, hi = law_vout(c, c["args"]["vo"], csum)
            else:
                lo, hi = law_vout(c, vin, iout, sel.get(n, 0))
            ref = max(abs(lo), abs(hi))
            d = 2 * tol.dV(ref) + SLACK * ref
            emit("law.vout", lo - d <= vout <= hi + d, lambda: det(expected=[lo, hi], tol=d))
            lost = False
        except LostPolarity:
            lost = True
        if k in ("Source", "RLoss", "VLoss", "PSwitch", "PMux", "Rectifier"):
            vref = c["args"]["vo"] if k == "Source" else vin
            if k == "Rectifier":
                keeps = vout > 0
            else:
                keeps = sgn(vout) == sgn(vref)
            okp = keeps and not lost
            # "lost polarity" (the F2 regime, which C03 judges and the other row checks skip) is the REFERENCE law
            # saying so for the reported operating point; a table that merely shows a wrong sign / a zero where the
            # law keeps the polarity is an ordinary law violation and is judged as such
            polarity_lost = polarity_lost or lost
            emit("phys.polarity", okp, lambda: det(reference_lost_polarity=lost))
            oka = abs(vout) <= abs(vref) + 2 * tol.dV(vref)
            emit("phys.no_gain", oka, lambda: det(reference=vref, reference_lost_polarity=lost))
        if k == "Source":
            vo = c["args"]["vo"]
            d = 2 * tol.dV(vo) + 2 * abs(c["args"].get("rs", 0.0)) * tol.dI(iin)
            emit("law.source_vin", abs(vin - vo) <= d, lambda: det(expected=vo, tol=d))
        else:
            dv = 2 * tol.dV(vin)
            cand = []
            for vv in (vin - dv, vin, vin + dv):
                if sgn(vv) == sgn(vin):
                    cand += list(law_iin(c, beh, vv, iout))
            lo, hi = min(cand), max(cand)
            d = 2 * tol.dI(hi) + SLACK * hi
            emit("law.iin", lo - d <= iin <= hi + d, lambda: det(expected=[lo, hi], tol=d))
        # ---- power / loss / efficiency ----
        etol = 4 * (abs(vin) * tol.dI(iin) + abs(iin) * tol.dV(vin) + abs(vout) * tol.dI(iout)
                    + abs(iout) * tol.dV(vout)) + SLACK * abs(P)
        if k in LOADS:
            cons = abs(vin * iin)
            if c["args"].get("loss", False):
                ok = P == 0.0 and _rel(L, cons)
            else:
                ok = L == 0.0 and _rel(P, cons)
            emit("energy.load", ok, lambda: det(consumption=cons, as_loss=c["args"].get("loss", False)))
            sysLoad += P
            sysLoss += L
            diss = P + L
        else:
            if k == "Source":
                pw = abs(c["args"]["vo"]) * iout
                sysP += P
            else:
                pw = abs(vin * iin)
            emit("energy.power", _rel(P, pw), lambda: det(expected_power=pw))
            out = abs(vout) * iout
            emit("energy.row", abs((P - L) - out) <= etol, lambda: det(power_minus_loss=P - L, handed_on=out, tol=etol))
            emit("energy.loss_range", -etol <= L <= P + etol, lambda: det(tol=etol))
            if P > 0:
                # (Loss may exceed Power by the solver tolerance, e.g. sub-1e-8 A currents that numpy's fixed atol cannot
                # resolve; the reported value is then the magnitude, and the range check carries the same tolerance)
                e = 100.0 * (P - L) / P
                et = 100.0 * etol / P + 1e-9
                emit("energy.eff", abs(E - abs(e)) <= 1e-9 * max(1.0, abs(e)) and -et <= E <= 100 + et and e >= -et,
                     lambda: det(expected_eff=e, tol=et))
            sysLoss += L
            diss = L
        sys_tol += etol
        _temps(emit, det, c, r, diss, ta, any_tr_col)

    if not polarity_lost:
        d = sys_tol + SLACK * abs(sysP)
        negs = [c["name"] for c in spec["comps"] if c["kind"] == "Source" and c["args"]["vo"] < 0
                and abs(c["args"].get("rs", 0.0)) > 0 and rows[c["name"]][COLS["iout"]] > 0]
        emit("energy.system", abs(sysP - (sysLoad + sysLoss)) <= d,
             lambda: {"phase": phase, "source_power": sysP, "load_power": sysLoad, "losses": sysLoss, "tol": d,
                      "neg_sources_with_rs_live": negs})
    return {"polarity_lost": polarity_lost, "skipped": False, "sup": sup, "sel": sel}


def _temps(emit, det, c, r, diss, ta, any_col, dead=False):
    if c["kind"] == "Source":
        return
    rt = abs(c["args"].get("rt", 0.0))
    tr, tp = r.get(COLS["tr"]), r.get(COLS["tp"])
    exp_tr = rt * diss
    if num(tr):
        emit("temp.rise", _rel(tr, exp_tr, 1e-11), lambda: det(expected_rise=exp_tr, rt=rt, dissipation=diss, dead=dead))
        emit("temp.peak_dead" if dead else "temp.peak", num(tp) and _rel(tp, ta + exp_tr, 1e-11, 1e-9),
             lambda: det(expected_peak=ta + exp_tr, ta=ta, dead=dead))
    elif not any_col:
        # columns are hidden only when no component has a positive rise in this phase
        # (a loss-less element may report a loss of -1e-7 W, solver noise: a non-positive rise never shows the columns)
        emit("temp.hidden", exp_tr <= 0.0 or abs(exp_tr) < 1e-300, lambda: det(expected_rise=exp_tr))


def _rel(a, b, rel=SLACK * 10, abs_=0.0):
    return abs(a - b) <= rel * max(abs(a), abs(b)) + abs_


def _rowvals(r):
    return {k: r.get(c) for k, c in COLS.items() if c in r}


def check_table(emit, spec, df, tol, ta=25.0, only_phase=None):
    """Judge a whole solve() table.  Returns per-phase info dicts."""
    order, per, avg = split_table(df)
    want = list((spec.get("phases") or {}).keys()) or [""]
    if only_phase is not None:
        want = [only_phase]
    emit("rows.phases", order == want, lambda: {"phases_in_table": order, "expected": want})
    info = {}
    for ph in order:
        if ph in want:
            info[ph] = check_phase(emit, spec, per[ph]["rows"], ph, tol, ta)
    return info, per, avg


# ---------------------------------------------------------------------------------------------
# reference steady-state solver (damped fixed point on the reference laws) - used by C03 to decide
# whether a steady state with modest series drops exists
# ---------------------------------------------------------------------------------------------
class NoSteadyState(Exception):
    pass


def spec_is_exact(spec):
    """True when every tabulated parameter has an exact reference value (no general 2-D table)."""
    for c in spec["comps"]:
        for z in ("eff", "vdrop", "ig", "iq"):
            p = c["args"].get(z)
            if is_table(p) and param_form(p) == "tab2d":
                return False
    return True


def refsolve(spec, phase="", damping=0.5, maxiter=20000, tol=1e-13):
    """-> {name: {'vin','vout','iin','iout'}} or raises NoSteadyState."""
    comps = spec["comps"]
    cm = comp_map(spec)
    beh = {c["name"]: behaviour(c, phase) for c in comps}
    vout = {}
    iin = {c["name"]: 0.0 for c in comps}
    for c in comps:
        vout[c["name"]] = float(c["args"]["vo"]) if (c["kind"] == "Source" and beh[c["name"]]["active"]) else 0.0
    order = [c["name"] for c in comps]  # creation order is a valid topological order
    last = None
    for it in range(maxiter):
        # supplier selection with current voltages
        sup, sel = {}, {}
        for c in comps:
            n = c["name"]
            if not c["parents"]:
                sup[n] = None
            elif c["kind"] == "PMux":
                k = -1
                for j, p in enumerate(c["parents"]):
                    if vout[p] != 0.0:
                        k = j
                        break
                sel[n] = k
                sup[n] = c["parents"][k] if k >= 0 else None
            else:
                sup[n] = c["parents"][0]
        kids = {n: [] for n in order}
        for n in order:
            if sup[n] is not None:
                kids[sup[n]].append(n)
        new_v, new_i = {}, {}
        # forward (Gauss-Seidel: use freshly computed parent voltages)
        for n in order:
            c = cm[n]
            io = sum(iin[k] for k in kids[n])
            if c["kind"] == "Source":
                if c["args"]["vo"] == 0.0 or not beh[n]["active"]:
                    new_v[n] = 0.0
                    continue
                try:
                    new_v[n] = law_vout(c, c["args"]["vo"], io)[0]
                except LostPolarity:
                    raise NoSteadyState("source %s collapses" % n)
                continue
            vin = new_v[sup[n]] if sup[n] is not None else 0.0
            if vin == 0.0 or not beh[n]["active"] or c["kind"] in LOADS:
                new_v[n] = 0.0
                continue
            try:
                lo, hi = law_vout(c, vin, io, sel.get(n, 0))
            except LostPolarity:
                raise NoSteadyState("%s loses polarity" % n)
            new_v[n] = 0.5 * (lo + hi)
        # backward
        for n in reversed(order):
            c = cm[n]
            io = sum(new_i.get(k, iin[k]) for k in kids[n])
            if c["kind"] == "Source":
                new_i[n] = io if new_v[n] != 0.0 else 0.0
                continue
            vin = new_v[sup[n]] if sup[n] is not None else 0.0
            if vin == 0.0:
                new_i[n] = 0.0
            elif not beh[n]["active"]:
                new_i[n] = sleep_current(c)
            else:
                lo, hi = law_iin(c, beh[n], vin, io)
                new_i[n] = 0.5 * (lo + hi)
        delta = 0.0
        for n in order:
            dv = abs(new_v[n] - vout[n]) / (abs(new_v[n]) + 1e-30) if new_v[n] != vout[n] else 0.0
            di = abs(new_i[n] - iin[n]) / (abs(new_i[n]) + 1e-30) if new_i[n] != iin[n] else 0.0
            delta = max(delta, dv, di)
            vout[n] = vout[n] + damping * (new_v[n] - vout[n]) if vout[n] != 0.0 and new_v[n] != 0.0 else new_v[n]
            iin[n] = iin[n] + damping * (new_i[n] - iin[n])
            if not math.isfinite(vout[n]) or not math.isfinite(iin[n]):
                raise NoSteadyState("diverged")
        if delta < tol:
            last = (sup, kids)
            break
    else:
        raise NoSteadyState("reference iteration did not converge")
    sup, kids = last
    res = {}
    for n in order:
        c = cm[n]
        io = sum(iin[k] for k in kids[n])
        if c["kind"] == "Source":
            vin = float(c["args"]["vo"]) if vout[n] != 0.0 else 0.0
        else:
            vin = vout[sup[n]] if sup[n] is not None else 0.0
        res[n] = {"vin": vin, "vout": vout[n], "iin": iin[n], "iout": io if c["kind"] != "Source" else iin[n]}
    return res


def max_drop_fraction(spec, ref):
    """Largest fraction of its input that a series element (or source resistance) drops in state `ref`."""
    worst = 0.0
    for c in spec["comps"]:
        r = ref[c["name"]]
        if c["kind"] in ("Source", "RLoss", "VLoss", "PSwitch", "PMux", "Rectifier") and r["vin"] != 0.0 and r["vout"] != 0.0:
            worst = max(worst, (abs(r["vin"]) - abs(r["vout"])) / abs(r["vin"]))
    return worst


def modest(spec, ref, frac=0.8):
    """DESIGN C03(f): every live node keeps >= frac of the voltage of its nearest regulated ancestor
    (source nominal, converter output, LinReg in regulation)."""
    cm = comp_map(spec)
    origin = {}
    worst = 1.0
    for c in spec["comps"]:
        n, k = c["name"], c["kind"]
        r = ref[n]
        if k == "Source":
            origin[n] = abs(float(c["args"]["vo"]))
            if r["vout"] != 0.0:
                worst = min(worst, abs(r["vout"]) / origin[n])
            continue
        # supplier = the parent whose output equals this row's vin (mux: selected)
        sup = None
        for p in c["parents"]:
            if ref[p]["vout"] == r["vin"] and r["vin"] != 0.0:
                sup = p
                break
        if sup is None or r["vin"] == 0.0:
            origin[n] = 0.0
            continue
        o = origin[sup]
        if k in LOADS:
            continue
        if r["vout"] == 0.0:
            origin[n] = 0.0
            continue
        if k == "Converter" or (k == "LinReg" and abs(abs(r["vout"]) - abs(c["args"]["vo"])) <= 1e-12 * abs(r["vout"])):
            origin[n] = abs(r["vout"])
            # the regulator's own supply must also be modestly dropped (checked at the supplier)
            continue
        origin[n] = o
        if o > 0:
            worst = min(worst, abs(r["vout"]) / o)
    return worst >= frac, worst
