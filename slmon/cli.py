"""./check <Cxx> --tier quick|thorough [--replay FILE]  |  ./check --selfcheck"""

import argparse
import importlib
import json
import os
import subprocess
import sys
import tempfile
import time

from . import core
from .core import Ctx

ALL = ["C%02d" % i for i in range(1, 21)]


def _mod(prop):
    return importlib.import_module("slmon.checks.%s" % prop.lower())


def _sizes(mod, tier):
    n = mod.SIZES[tier]
    scale = float(os.environ.get("VERIF_SCALE", "1"))
    return max(1, int(n * scale))


def _gen_cases(ctx, mod, n):
    for i in range(n):
        yield mod.gen(ctx.rng, i, ctx.tier)


def run_shard(prop, tier, seed, shard, nshards):
    """Run one process worth of workload, return the Ctx."""
    mod = _mod(prop)
    ctx = Ctx(prop, tier, seed, shard)
    if hasattr(mod, "setup"):
        mod.setup(ctx)
    if shard == 0 and hasattr(mod, "directed"):
        core.run_cases(ctx, mod, mod.directed())
    core.run_cases(ctx, mod, _gen_cases(ctx, mod, _sizes(mod, tier)))
    if hasattr(mod, "finish"):
        mod.finish(ctx)
    return ctx


def classify(prop, known, viol):
    """Return the id of the open known finding that explains viol, or None."""
    from . import known as kn

    for f in known.get("findings", []):
        if f.get("property") != prop or f.get("status", "open") != "open":
            continue
        pred = kn.MECHANISMS.get(f["mechanism"])
        if pred is None:
            continue
        try:
            if pred(viol):
                return f["id"]
        except Exception:
            continue
    return None


def witness_status(prop, known, seed):
    """Re-run each open finding's directed witness. Returns list of (finding, still_fails)."""
    mod = _mod(prop)
    out = []
    for f in known.get("findings", []):
        if f.get("property") != prop or f.get("status", "open") != "open":
            continue
        ctx = Ctx(prop, "quick", seed, 0)
        if hasattr(mod, "setup"):
            mod.setup(ctx)
        core.run_cases(ctx, mod, [f["witness"]])
        hit = any(classify(prop, {"findings": [f]}, v) == f["id"] for v in ctx.violations)
        out.append((f, hit, ctx))
    return out


def main(argv=None):
    ap = argparse.ArgumentParser()
    ap.add_argument("prop", nargs="?")
    ap.add_argument("--tier", default=os.environ.get("VERIF_TIER", "quick"))
    ap.add_argument("--replay")
    ap.add_argument("--selfcheck", action="store_true")
    ap.add_argument("--shard", type=int, default=None)
    ap.add_argument("--nshards", type=int, default=None)
    ap.add_argument("--shard-out")
    ap.add_argument("--no-evidence", action="store_true")
    a = ap.parse_args(argv)
    seed = int(os.environ.get("VERIF_SEED", "0"))

    if a.selfcheck:
        return selfcheck()
    if not a.prop or a.prop not in ALL:
        print("usage: ./check Cxx --tier quick|thorough [--replay FILE]")
        return 2
    prop = a.prop
    tier = a.tier if a.tier in ("quick", "thorough") else "quick"
    mod = _mod(prop)

    if a.shard is not None:  # child process of a thorough run
        ctx = run_shard(prop, tier, seed, a.shard, a.nshards or 1)
        with open(a.shard_out, "w") as f:
            json.dump(ctx.dump(), f, default=repr)
        return 0

    if a.replay:
        return replay(prop, mod, a.replay, seed)

    t0 = time.time()
    known = core.load_known()
    nshards = 1
    if tier == "thorough":
        nshards = int(os.environ.get("VERIF_SHARDS", "16"))
    total = Ctx(prop, tier, seed, 0)
    if nshards == 1:
        ctx = run_shard(prop, tier, seed, 0, 1)
        total.merge(ctx.dump())
    else:
        tmpd = tempfile.mkdtemp(prefix="slmon-")
        procs = []
        budget = float(os.environ.get("VERIF_SHARD_TIMEOUT", str(getattr(mod, "SHARD_TIMEOUT", 3000))))
        for k in range(nshards):
            out = os.path.join(tmpd, "shard%d.json" % k)
            cmd = [sys.executable, "-m", "slmon.cli", prop, "--tier", tier, "--shard", str(k),
                   "--nshards", str(nshards), "--shard-out", out]
            procs.append((k, out, subprocess.Popen(cmd, cwd=core.VERIF, stdout=subprocess.PIPE,
                                                   stderr=subprocess.STDOUT)))
        deadline = time.time() + budget
        for k, out, p in procs:
            try:
                so, _ = p.communicate(timeout=max(1.0, deadline - time.time()))
            except subprocess.TimeoutExpired:
                p.kill()
                p.communicate()
                total.inconc("shard %d hit the wall-clock watchdog (%ss)" % (k, budget))
                continue
            if p.returncode != 0 or not os.path.exists(out):
                total.harness_errors.append({"traceback": "shard %d exited %s: %s" % (
                    k, p.returncode, (so or b"").decode(errors="replace")[-2000:])})
                continue
            with open(out) as f:
                total.merge(json.load(f))
            os.unlink(out)
        try:
            os.rmdir(tmpd)
        except OSError:
            pass

    # --- known findings -----------------------------------------------------
    unlisted, listed = [], {}
    for v in total.violations:
        fid = classify(prop, known, v)
        if fid is None:
            unlisted.append(v)
        else:
            listed[fid] = listed.get(fid, 0) + 1
    # violations beyond the kept ones share (clause, kind) with kept ones (bounded per key); a key none of
    # whose kept records was stored at all (global cap) cannot be classified: be conservative
    kept_keys = set("%s|%s" % (v["clause"], (v["detail"] or {}).get("kind") if isinstance(v["detail"], dict) else "")
                    for v in total.violations)
    overflow = sum(n for k, n in total._vkeys.items() if k not in kept_keys)
    wit = witness_status(prop, known, seed)
    for f, hit, _ in wit:
        if hit:
            print("KNOWN-FINDING: property=%s %s [%s]" % (prop, f["what"], f["id"]))
        else:
            print("NOTE: property=%s witness of listed finding %s no longer fails" % (prop, f["id"]))

    # --- verdict ----------------------------------------------------------------
    missing = [c for c in getattr(mod, "REQUIRED", []) if total.clauses.get(c, 0) == 0]
    status = "held"
    rc = 0
    replays = []
    if unlisted:
        status = "violated"
        rc = 1
        seen = set()
        for v in unlisted:
            key = (v["clause"], core.jhash(v["case"]))
            if key in seen:
                continue
            seen.add(key)
            if len(replays) < 5:
                replays.append(core.write_replay(prop, v, seed, tier))
    elif overflow > 0:
        status = "violated"
        rc = 1
    elif total.harness_errors or missing or total.inconclusive_blocking():
        status = "inconclusive"
        rc = 2

    wall = time.time() - t0
    if not a.no_evidence:
        write_evidence(prop, mod, total, tier, seed, wall, status, listed, unlisted, missing, wit)

    print("%s tier=%s seed=%d evaluations=%d distinct_nontrivial=%d clause_evals=%d wall=%.1fs" % (
        prop, tier, seed, total.evaluations, len(total.distinct), sum(total.clauses.values()), wall))
    for c in sorted(total.clauses):
        print("  clause %-34s %d" % (c, total.clauses[c]))
    if listed:
        print("  known findings matched by random cases: %s" % json.dumps(listed))
    if rc == 1:
        for v in unlisted[:8]:
            print("  violated clause=%s detail=%s" % (v["clause"], json.dumps(v["detail"], default=repr)[:600]))
        for r in replays:
            print("VIOLATION property=%s replay=%s" % (prop, r))
        if not replays:
            print("VIOLATION property=%s replay=none" % prop)
    elif rc == 2:
        why = []
        if total.harness_errors:
            why.append("harness_errors=%d" % len(total.harness_errors))
            print(total.harness_errors[0].get("traceback", "")[-2500:])
        if missing:
            why.append("clauses_never_evaluated=%s" % ",".join(missing))
        if total.inconclusive:
            why.append("inconclusive_cases=%d (%s)" % (len(total.inconclusive), total.inconclusive[0]))
        print("INCONCLUSIVE property=%s reason=%s" % (prop, "; ".join(why)))
    else:
        print("HELD property=%s on everything explored" % prop)
    return rc


def _inconclusive_blocking(self):
    # watchdog hits make the run inconclusive; per-case "undetermined" notes do not
    return any("watchdog" in w for w in self.inconclusive)


Ctx.inconclusive_blocking = _inconclusive_blocking


def write_evidence(prop, mod, ctx, tier, seed, wall, status, listed, unlisted, missing, wit):
    os.makedirs(core.EVIDENCE_DIR, exist_ok=True)
    cov = {
        "evaluations": ctx.evaluations,
        "distinct_nontrivial": len(ctx.distinct),
        "rule": mod.RULE,
        "samples": ctx.samples[:3],
        "clause_evaluations": dict(sorted(ctx.clauses.items())),
        "observed": {k: sorted(v)[:80] for k, v in sorted(ctx.observed.items())},
        "observed_counts": {k: len(v) for k, v in sorted(ctx.observed.items())},
        "histograms": ctx.hist,
        "verdict": status,
        "clauses_never_evaluated": missing,
        "known_findings_hit": listed,
        "known_finding_witnesses": [
            {"id": f["id"], "still_fails": hit} for f, hit, _ in wit
        ],
        "inconclusive_cases": len(ctx.inconclusive),
        "inconclusive_examples": ctx.inconclusive[:5],
        "harness_errors": len(ctx.harness_errors),
        "exhaustive": False,
    }
    try:
        from .loader import FP, load
        from . import reach

        cov["fp_events"] = dict(ctx.fp) or dict(FP.events)
        cov["reached_lines"] = reach.summarise(ctx.reach, load(), getattr(mod, "ANCHORS", None))
    except Exception as e:  # noqa: BLE001
        cov["reached_lines"] = "unavailable: %r" % (e,)
    ev = {
        "property_id": prop,
        "tier": tier,
        "seed": seed,
        "level": mod.LEVEL,
        "coverage": cov,
        "assumptions": getattr(mod, "ASSUMPTIONS", []),
        "wall_s": round(wall, 2),
        "violations": len(unlisted),
    }
    path = os.path.join(core.EVIDENCE_DIR, "%s.json" % prop)
    with open(path, "w") as f:
        json.dump(ev, f, indent=1, default=repr)


def replay(prop, mod, path, seed):
    with open(path) as f:
        rec = json.load(f)
    ctx = Ctx(prop, "quick", seed, 0)
    if hasattr(mod, "setup"):
        mod.setup(ctx)
    core.run_cases(ctx, mod, [rec["case"]])
    known = core.load_known()
    bad = [v for v in ctx.violations if classify(prop, known, v) is None]
    for v in ctx.violations:
        print("replayed clause=%s known=%s detail=%s" % (
            v["clause"], classify(prop, known, v), json.dumps(v["detail"], default=repr)[:1500]))
    if ctx.harness_errors:
        print(ctx.harness_errors[0].get("traceback"))
        return 2
    if bad:
        print("VIOLATION property=%s replay=%s" % (prop, path))
        return 1
    print("replay: no unlisted violation reproduced")
    return 0


def selfcheck():
    from . import loader

    ns = loader.load()
    print("python", sys.version.split()[0], sys.executable)
    print("sysloss", ns.sysloss.__version__, "from", os.path.dirname(ns.sysloss.__file__))
    import shutil

    print("dot:", shutil.which("dot") or "ABSENT (C19 rendered samples become inconclusive)")
    bad = 0
    for p in ALL:
        try:
            _mod(p)
        except ModuleNotFoundError:
            continue
        except Exception as e:
            print("check module %s failed to import: %r" % (p, e))
            bad += 1
    os.makedirs(core.EVIDENCE_DIR, exist_ok=True)
    os.makedirs(core.REPLAY_DIR, exist_ok=True)
    print("selfcheck", "FAILED" if bad else "ok")
    return 1 if bad else 0


if __name__ == "__main__":
    sys.exit(main())
