"""Shared run context: clause counters, violation records, evidence, shard merge."""

import hashlib
import json
import os
import random
import time
import traceback

VERIF = os.path.dirname(os.path.dirname(os.path.abspath(__file__)))
EVIDENCE_DIR = os.path.join(VERIF, "evidence")
REPLAY_DIR = os.path.join(VERIF, "replays")
KNOWN_FILE = os.path.join(VERIF, "known_findings.json")

MAX_VIOL_KEPT = 400
PER_KEY_KEPT = 6


def jhash(obj):
    """Stable short hash of a JSON-serialisable object."""
    s = json.dumps(obj, sort_keys=True, default=repr)
    return hashlib.sha1(s.encode()).hexdigest()[:16]


def derive_seed(seed, prop, shard):
    h = hashlib.sha256(("%s/%s/%s" % (seed, prop, shard)).encode()).hexdigest()
    return int(h[:12], 16)


class Ctx:
    """What one process observed while running one property's workload."""

    def __init__(self, prop, tier, seed, shard=0):
        self.prop = prop
        self.tier = tier
        self.seed = seed
        self.shard = shard
        self.rng = random.Random(derive_seed(seed, prop, shard))
        self.clauses = {}  # clause -> evaluations
        self.violations = []  # dicts: clause, case, detail
        self.n_violations = 0
        self.observed = {}  # key -> set of short strings / counters
        self.hist = {}  # key -> {bucket: count}
        self.distinct = set()
        self.samples = []
        self.evaluations = 0
        self.harness_errors = []
        self.inconclusive = []
        self.case = None  # case being executed (for violate())
        self._vkeys = {}
        self.reach = {}
        self.fp = {}

    # --- recording -------------------------------------------------------
    def ev(self, clause, n=1):
        self.clauses[clause] = self.clauses.get(clause, 0) + n

    def violate(self, clause, detail, case=None):
        self.n_violations += 1
        key = "%s|%s" % (clause, (detail or {}).get("kind") if isinstance(detail, dict) else "")
        self._vkeys[key] = self._vkeys.get(key, 0) + 1
        # keep a bounded number per (clause, kind) so that a flood of one mechanism cannot hide another
        if self._vkeys[key] <= PER_KEY_KEPT and len(self.violations) < MAX_VIOL_KEPT:
            self.violations.append(
                {
                    "clause": clause,
                    "detail": detail,
                    "case": case if case is not None else self.case,
                }
            )

    def check(self, clause, ok, detail_fn=None):
        """Count one evaluation of clause; record a violation if not ok."""
        self.ev(clause)
        if not ok:
            d = detail_fn() if callable(detail_fn) else (detail_fn or {})
            self.violate(clause, d)
        return ok

    def see(self, key, value):
        self.observed.setdefault(key, set()).add(value)

    def count(self, key, bucket, n=1):
        h = self.hist.setdefault(key, {})
        h[str(bucket)] = h.get(str(bucket), 0) + n

    def nontrivial(self, obj):
        self.distinct.add(jhash(obj))

    def sample(self, obj, limit=3):
        if len(self.samples) < limit:
            self.samples.append(obj)

    def inconc(self, why):
        if len(self.inconclusive) < 50:
            self.inconclusive.append(why)

    # --- (de)serialisation for shards --------------------------------------
    def dump(self):
        return {
            "clauses": self.clauses,
            "violations": self.violations,
            "n_violations": self.n_violations,
            "vkeys": self._vkeys,
            "observed": {k: sorted(v) for k, v in self.observed.items()},
            "hist": self.hist,
            "distinct": sorted(self.distinct),
            "samples": self.samples,
            "evaluations": self.evaluations,
            "harness_errors": self.harness_errors,
            "inconclusive": self.inconclusive,
            "reach": _reach_dump(),
            "fp": _fp_dump(),
        }

    def merge(self, d):
        for k, v in d["clauses"].items():
            self.clauses[k] = self.clauses.get(k, 0) + v
        for v in d["violations"]:
            if len(self.violations) < MAX_VIOL_KEPT * 4:
                self.violations.append(v)
        self.n_violations += d["n_violations"]
        for k, n in d.get("vkeys", {}).items():
            self._vkeys[k] = self._vkeys.get(k, 0) + n
        for k, v in d["observed"].items():
            self.observed.setdefault(k, set()).update(v)
        for k, h in d["hist"].items():
            hh = self.hist.setdefault(k, {})
            for b, n in h.items():
                hh[b] = hh.get(b, 0) + n
        self.distinct.update(d["distinct"])
        for s in d["samples"]:
            self.sample(s)
        self.evaluations += d["evaluations"]
        self.harness_errors += d["harness_errors"]
        self.inconclusive += d["inconclusive"]
        for k, v in (d.get("reach") or {}).items():
            self.reach.setdefault(k, set()).update(v)
        for k, n in (d.get("fp") or {}).items():
            self.fp[k] = self.fp.get(k, 0) + n


def _fp_dump():
    try:
        from .loader import FP

        return dict(FP.events)
    except Exception:  # noqa: BLE001
        return {}


def _reach_dump():
    try:
        from . import reach

        return reach.dump()
    except Exception:  # noqa: BLE001
        return {}


class CaseTimeout(BaseException):
    """Raised by the per-case wall-clock watchdog (generous; its firing is INCONCLUSIVE, never a violation)."""


def _alarm(signum, frame):
    raise CaseTimeout()


def run_cases(ctx, mod, cases):
    """Drive mod.run over cases, isolating harness errors per case; a per-case watchdog bounds every run."""
    import signal

    limit = float(os.environ.get("VERIF_CASE_TIMEOUT", str(getattr(mod, "CASE_TIMEOUT", 300))))
    use_alarm = hasattr(signal, "setitimer")
    if use_alarm:
        signal.signal(signal.SIGALRM, _alarm)
    timeouts = 0
    max_timeouts = int(os.environ.get("VERIF_MAX_TIMEOUTS", "3"))
    for case in cases:
        if timeouts >= max_timeouts:
            # bounded run: a tree on which case after case hangs must not keep the check busy for hours
            ctx.inconc("run cut short: %d cases hit the watchdog; the remaining cases were not driven" % timeouts)
            break
        ctx.case = case
        ctx.evaluations += 1
        try:
            if use_alarm:
                signal.setitimer(signal.ITIMER_REAL, limit)
            mod.run(ctx, case)
        except CaseTimeout:
            timeouts += 1
            path = write_replay(getattr(mod, "PROP", "C??"), {"clause": "watchdog.timeout", "case": case, "detail": {"limit_s": limit}}, None, None)
            ctx.inconc("watchdog: a case did not finish within %.0f s (case kept in the evidence and in %s)" % (limit, path))
            ctx.sample({"timed_out_case": case}, limit=6)
        except Exception:
            tb = traceback.format_exc()
            if len(ctx.harness_errors) < 10:
                ctx.harness_errors.append({"case": case, "traceback": tb[-3000:]})
            else:
                ctx.harness_errors.append({"traceback": tb[-300:]})
        finally:
            if use_alarm:
                signal.setitimer(signal.ITIMER_REAL, 0)
        ctx.case = None


def write_replay(prop, viol, seed, tier):
    os.makedirs(REPLAY_DIR, exist_ok=True)
    rec = {
        "property": prop,
        "clause": viol["clause"],
        "case": viol["case"],
        "detail": viol["detail"],
        "seed": seed,
        "tier": tier,
    }
    path = os.path.join(REPLAY_DIR, "%s-%s.json" % (prop, jhash(rec)))
    with open(path, "w") as f:
        json.dump(rec, f, indent=1, default=repr)
    return path


def load_known():
    if not os.path.exists(KNOWN_FILE):
        return {"findings": [], "fixed": []}
    with open(KNOWN_FILE) as f:
        return json.load(f)


def now():
    return time.time()
